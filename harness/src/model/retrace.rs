//! Reference retrace model, computed from the mapping AST only (never through the crate's parser).

use crate::gen::mapping::{Item, MapFile, Method, OLines, SYNTHETIC};
use std::collections::{BTreeMap, HashSet};

#[derive(Clone, Debug)]
pub struct Entry<'a> {
    pub m: &'a Method,
    /// the sourceFile in effect at this line of the block
    pub file: Option<&'a str>,
    /// the next record of the file is a method with the identical usable range
    pub inlined_callee: bool,
    /// kept in the by-params index (not an inlined callee, first of its (obf, args, original) triple in the block)
    pub by_params: bool,
    /// position in the whole file (record index)
    pub pos: usize,
}

#[derive(Clone, Debug)]
pub struct ClassModel<'a> {
    pub orig: &'a str,
    pub obf: &'a str,
    /// sourceFile in effect at the end of the block
    pub file: Option<&'a str>,
    pub entries: Vec<Entry<'a>>,
    pub block_index: usize,
}

#[derive(Clone, Debug, PartialEq, Eq)]
pub struct MFrame<'a> {
    pub class: &'a str,
    pub method: &'a str,
    pub line: u64,
    pub file: Option<&'a str>,
    pub params: Option<&'a str>,
}

#[derive(Clone, Debug)]
pub struct Model<'a> {
    /// effective class table: last block with a given obfuscated name wins, whole block replaces
    pub classes: BTreeMap<&'a str, ClassModel<'a>>,
    /// number of blocks shadowed by a later block of the same obfuscated name
    pub shadowed: usize,
}

pub fn outer_simple_name(class: &str) -> &str {
    let last = class.rsplit('.').next().unwrap_or(class);
    last.split('$').next().unwrap_or(last)
}

impl<'a> Model<'a> {
    pub fn new(f: &'a MapFile) -> Model<'a> {
        // flatten to find "next record" (noise and blank lines are not records)
        #[derive(Clone, Copy)]
        enum Rec<'a> {
            Class,
            Method(&'a Method),
            Other,
        }
        let mut recs: Vec<Rec<'a>> = Vec::new();
        let push_items = |items: &'a [Item], recs: &mut Vec<Rec<'a>>| {
            for it in items {
                match it {
                    Item::Method(m) => recs.push(Rec::Method(m)),
                    Item::Noise(_) | Item::Blank => {}
                    _ => recs.push(Rec::Other),
                }
            }
        };
        push_items(&f.prelude, &mut recs);
        for b in &f.blocks {
            recs.push(Rec::Class);
            push_items(&b.items, &mut recs);
        }

        let mut classes: BTreeMap<&'a str, ClassModel<'a>> = BTreeMap::new();
        let mut shadowed = 0;
        let mut pos = f
            .prelude
            .iter()
            .filter(|i| !matches!(i, Item::Noise(_) | Item::Blank))
            .count();
        for (bi, b) in f.blocks.iter().enumerate() {
            pos += 1; // class record
            let mut file: Option<&'a str> = None;
            let mut entries = Vec::new();
            let mut unique: HashSet<(&str, &str, &str)> = HashSet::new();
            for it in &b.items {
                match it {
                    Item::Noise(_) | Item::Blank => continue,
                    Item::SourceFile(n) => file = Some(n.as_str()),
                    Item::Header { key, value } => {
                        // documented only differentially (C02); the model follows the in-memory mapper:
                        // the header's (trimmed) key `sourceFile` sets or, without value, resets the file
                        if key.trim() == "sourceFile" {
                            file = value.as_deref().map(|v| v.trim());
                        }
                    }
                    Item::Field { .. } => {}
                    Item::Method(m) => {
                        let next = recs.get(pos + 1).copied();
                        let inlined_callee = match (m.usable(), next) {
                            (Some(u), Some(Rec::Method(n))) => n.usable() == Some(u),
                            _ => false,
                        };
                        let by_params = if inlined_callee {
                            false
                        } else {
                            unique.insert((m.obf.as_str(), m.args.as_str(), m.oname.as_str()))
                        };
                        entries.push(Entry { m, file, inlined_callee, by_params, pos });
                    }
                }
                pos += 1;
            }
            let cm = ClassModel { orig: &b.orig, obf: &b.obf, file, entries, block_index: bi };
            if classes.insert(&b.obf, cm).is_some() {
                shadowed += 1;
            }
        }
        Model { classes, shadowed }
    }

    pub fn class(&self, obf: &str) -> Option<&'a str> {
        self.classes.get(obf).map(|c| c.orig)
    }

    /// `Some((class, method))` iff class known, at least one entry has that obfuscated name, all agree
    pub fn method(&self, class: &str, method: &str) -> Option<(&'a str, &'a str)> {
        let c = self.classes.get(class)?;
        let mut it = c.entries.iter().filter(|e| e.m.obf == method);
        let first = it.next()?;
        if it.all(|e| e.m.oname == first.m.oname) {
            Some((c.orig, first.m.oname.as_str()))
        } else {
            None
        }
    }

    pub fn has_method(&self, class: &str, method: &str) -> bool {
        self.classes
            .get(class)
            .map_or(false, |c| c.entries.iter().any(|e| e.m.obf == method))
    }

    pub fn frames_by_line<'q>(
        &self,
        class: &str,
        method: &str,
        line: u64,
        file: Option<&'q str>,
    ) -> Vec<MFrame<'q>>
    where
        'a: 'q,
    {
        let mut out = Vec::new();
        let Some(c) = self.classes.get(class) else {
            return out;
        };
        for e in c.entries.iter().filter(|e| e.m.obf == method) {
            if let Some(f) = entry_frame(c.orig, e, line, file) {
                out.push(f);
            }
        }
        out
    }

    pub fn frames_by_params<'q>(&self, class: &str, method: &str, params: &'q str) -> Vec<MFrame<'q>>
    where
        'a: 'q,
    {
        let mut out = Vec::new();
        let Some(c) = self.classes.get(class) else {
            return out;
        };
        for e in c.entries.iter().filter(|e| e.by_params && e.m.obf == method && e.m.args == params) {
            out.push(MFrame {
                class: e.m.oclass.as_deref().unwrap_or(c.orig),
                method: &e.m.oname,
                line: 0,
                file: None,
                params: Some(params),
            });
        }
        out
    }
}

/// The by-line answer of one entry, or `None` when the entry's range does not contain the line.
pub fn entry_frame<'a, 'q>(class_orig: &'a str, e: &Entry<'a>, line: u64, file_q: Option<&'q str>) -> Option<MFrame<'q>>
where
    'a: 'q,
{
    let m = e.m;
    let out_line = match m.usable() {
        None => 0,
        Some((s, en)) => {
            if !(s <= line && line <= en) {
                return None;
            }
            let (os, oe) = match m.olines {
                OLines::None => (s, Some(en)),
                OLines::S(a) => (a, None),
                OLines::SE(a, b) => (a, Some(b)),
            };
            if oe.is_none() || oe == Some(os) {
                os
            } else {
                // representable domain: no overflow possible (both < 2^32)
                os.wrapping_add(line - s)
            }
        }
    };
    let class_out: &'a str = m.oclass.as_deref().unwrap_or(class_orig);
    let file_out: Option<&'q str> = match e.file {
        Some(f) if f == SYNTHETIC => Some(outer_simple_name(class_out)),
        Some(f) => Some(f),
        None => {
            if m.oclass.is_some() {
                None
            } else {
                file_q
            }
        }
    };
    Some(MFrame { class: class_out, method: &m.oname, line: out_line, file: file_out, params: None })
}

//! Strict, hand-written recogniser of the documented mapping-line grammar. Deliberately narrower than the
//! crate's parser (names without spaces, colons or parentheses; types not starting with a digit; numbers of
//! at most 19 digits), so that everything it accepts has exactly one reading.

use crate::gen::mapping::{Block, Item, MapFile, Method, OLines};

#[derive(Clone, Debug, PartialEq, Eq)]
pub struct LineMap {
    pub start: u64,
    pub end: u64,
    pub ostart: Option<u64>,
    pub oend: Option<u64>,
}

#[derive(Clone, Debug, PartialEq, Eq)]
pub enum Rec<'a> {
    Header { key: &'a str, value: Option<&'a str> },
    Class { original: &'a str, obfuscated: &'a str },
    Field { ty: &'a str, original: &'a str, obfuscated: &'a str },
    Method {
        ty: &'a str,
        original: &'a str,
        obfuscated: &'a str,
        arguments: &'a str,
        original_class: Option<&'a str>,
        line_mapping: Option<LineMap>,
        /// raw printed numbers (range, original lines) for AST reconstruction
        raw_range: Option<(u64, u64)>,
        raw_olines: (Option<u64>, Option<u64>),
    },
}

pub const SOURCE_FILE_PREFIX: &str = "# {\"id\":\"sourceFile\",\"fileName\":\"";

fn name_ok(s: &str) -> bool {
    !s.is_empty() && !s.chars().any(|c| matches!(c, ' ' | ':' | '(' | ')' | '\r' | '\n'))
}

fn number(s: &str) -> Option<u64> {
    if s.is_empty() || s.len() > 19 || !s.bytes().all(|b| b.is_ascii_digit()) {
        return None;
    }
    s.parse().ok()
}

/// Recognise one line (without its terminator). `None` = not classified (neither required to parse nor to fail).
pub fn recognise(line: &str) -> Option<Rec<'_>> {
    if line.contains(['\r', '\n']) {
        return None;
    }
    if let Some(rest) = line.strip_prefix('#') {
        if line.starts_with(SOURCE_FILE_PREFIX) {
            let v = &line[SOURCE_FILE_PREFIX.len()..];
            let name = v.strip_suffix("\"}")?;
            if name.contains('"') {
                return None;
            }
            return Some(Rec::Header { key: "sourceFile", value: Some(name) });
        }
        // a '#' line whose tail starts like the sourceFile JSON but is not the exact form is left unclassified
        if rest.starts_with(" {\"id\":\"sourceFile\",\"fileName\":\"") {
            return None;
        }
        return Some(match rest.split_once(':') {
            Some((k, v)) => Rec::Header { key: k.trim(), value: Some(v.trim()) },
            None => Rec::Header { key: rest.trim(), value: None },
        });
    }
    if let Some(body) = line.strip_prefix("    ") {
        // member line
        let (lhs, obf) = body.split_once(" -> ")?;
        if !name_ok(obf) {
            return None;
        }
        // optional "S:E:" prefix
        let (raw_range, rest) = match lhs.as_bytes().first() {
            Some(b) if b.is_ascii_digit() => {
                let (s, r) = lhs.split_once(':')?;
                let (e, r) = r.split_once(':')?;
                (Some((number(s)?, number(e)?)), r)
            }
            _ => (None, lhs),
        };
        let (ty, rest) = rest.split_once(' ')?;
        if !name_ok(ty) || ty.as_bytes()[0].is_ascii_digit() {
            return None;
        }
        if let Some(p) = rest.find('(') {
            let full = &rest[..p];
            let after = &rest[p + 1..];
            let q = after.find(')')?;
            let args = &after[..q];
            if args.chars().any(|c| matches!(c, '(' | ' ' | ':')) {
                return None;
            }
            let tail = &after[q + 1..];
            let (os, oe) = if tail.is_empty() {
                (None, None)
            } else {
                let t = tail.strip_prefix(':')?;
                match t.split_once(':') {
                    Some((a, b)) => (Some(number(a)?), Some(number(b)?)),
                    None => (Some(number(t)?), None),
                }
            };
            if !name_ok(full) {
                return None;
            }
            let (oclass, oname) = match full.rsplit_once('.') {
                Some((c, n)) => {
                    if c.is_empty() || n.is_empty() {
                        return None;
                    }
                    (Some(c), n)
                }
                None => (None, full),
            };
            let line_mapping = match raw_range {
                Some((s, e)) if s > 0 && e > 0 => Some(LineMap { start: s, end: e, ostart: os, oend: oe }),
                _ => None,
            };
            Some(Rec::Method { ty, original: oname, obfuscated: obf, arguments: args, original_class: oclass, line_mapping, raw_range, raw_olines: (os, oe) })
        } else {
            // field: no parentheses anywhere, no range prefix in the documented grammar
            if raw_range.is_some() || !name_ok(rest) {
                return None;
            }
            Some(Rec::Field { ty, original: rest, obfuscated: obf })
        }
    } else {
        // class line
        let (orig, rest) = line.split_once(" -> ")?;
        let obf = rest.strip_suffix(':')?;
        if !name_ok(orig) || !name_ok(obf) {
            return None;
        }
        Some(Rec::Class { original: orig, obfuscated: obf })
    }
}

/// Compare a recognised record with what the crate parsed.
pub fn same_record(want: &Rec, got: &proguard::ProguardRecord) -> bool {
    use proguard::ProguardRecord as P;
    match (want, got) {
        (Rec::Header { key, value }, P::Header { key: k, value: v }) => key == k && value == v,
        (Rec::Class { original, obfuscated }, P::Class { original: o, obfuscated: b }) => original == o && obfuscated == b,
        (Rec::Field { ty, original, obfuscated }, P::Field { ty: t, original: o, obfuscated: b }) => ty == t && original == o && obfuscated == b,
        (
            Rec::Method { ty, original, obfuscated, arguments, original_class, line_mapping, .. },
            P::Method { ty: t, original: o, obfuscated: b, arguments: a, original_class: c, line_mapping: l },
        ) => {
            ty == t
                && original == o
                && obfuscated == b
                && arguments == a
                && original_class == c
                && match (line_mapping, l) {
                    (None, None) => true,
                    (Some(x), Some(y)) => {
                        x.start == y.startline as u64 && x.end == y.endline as u64 && x.ostart == y.original_startline.map(|v| v as u64) && x.oend == y.original_endline.map(|v| v as u64)
                    }
                    _ => false,
                }
        }
        _ => false,
    }
}

/// Convert a whole file into the mapping AST with the strict recogniser. Returns `None` if any non-blank line
/// is not recognised (then no model-based claim is made about the file). Lines are split at LF / CRLF / CR.
pub fn to_ast(bytes: &[u8]) -> Option<MapFile> {
    let text = std::str::from_utf8(bytes).ok()?;
    let mut prelude: Vec<Item> = Vec::new();
    let mut blocks: Vec<Block> = Vec::new();
    for line in text.split(['\n', '\r']) {
        if line.is_empty() {
            continue;
        }
        let Some(rec) = recognise(line) else {
            // a line without an arrow that does not start with '#' can never be a record of the documented
            // grammar (class and member lines need " -> "): it is noise. Anything else unrecognised => give up.
            if !line.contains(" -> ") && !line.starts_with('#') {
                let item = Item::Noise(line.to_string());
                match blocks.last_mut() {
                    Some(b) => b.items.push(item),
                    None => prelude.push(item),
                }
                continue;
            }
            return None;
        };
        let item = match rec {
            Rec::Class { original, obfuscated } => {
                blocks.push(Block { orig: original.to_string(), obf: obfuscated.to_string(), items: vec![] });
                continue;
            }
            Rec::Header { .. } => {
                if line.starts_with(SOURCE_FILE_PREFIX) {
                    if let Rec::Header { value: Some(v), .. } = rec {
                        Item::SourceFile(v.to_string())
                    } else {
                        return None;
                    }
                } else {
                    // keep verbatim: `# key[: value]` re-rendered from the raw text
                    let body = &line[1..];
                    match body.split_once(':') {
                        Some((k, v)) => Item::Header { key: k.trim().to_string(), value: Some(v.trim().to_string()) },
                        None => Item::Header { key: body.trim().to_string(), value: None },
                    }
                }
            }
            Rec::Field { ty, original, obfuscated } => Item::Field { ty: ty.to_string(), orig: original.to_string(), obf: obfuscated.to_string() },
            Rec::Method { ty, original, obfuscated, arguments, original_class, raw_range, raw_olines, .. } => Item::Method(Method {
                range: raw_range,
                ty: ty.to_string(),
                oclass: original_class.map(|s| s.to_string()),
                oname: original.to_string(),
                args: arguments.to_string(),
                olines: match raw_olines {
                    (None, _) => OLines::None,
                    (Some(a), None) => OLines::S(a),
                    (Some(a), Some(b)) => OLines::SE(a, b),
                },
                obf: obfuscated.to_string(),
            }),
        };
        match blocks.last_mut() {
            Some(b) => b.items.push(item),
            None => prelude.push(item),
        }
    }
    Some(MapFile { prelude, blocks })
}

//! Independent recognisers for the two line shapes of a printed Java stack trace, as the released library
//! documents them: `at <class>.<method>(<file>:<line>)` and `<class>[: <message>]`. The text oracle (C07/C08/C10)
//! classifies lines with these and not with the crate's own parser: a parser that starts to accept other spellings
//! (a second colon in the file part, text behind the closing parenthesis, a thread header in front of the class)
//! would otherwise move the oracle along with itself.

#[derive(Clone, Debug, PartialEq, Eq)]
pub struct LFrame<'a> {
    pub class: &'a str,
    pub method: &'a str,
    pub file: &'a str,
    pub line: u64,
}

/// decimal number as `usize::from_str` takes it on a 64-bit target: optional `+`, at least one ASCII digit, no overflow
fn number(s: &str) -> Option<u64> {
    let digits = s.strip_prefix('+').unwrap_or(s);
    if digits.is_empty() {
        return None;
    }
    let mut v: u64 = 0;
    for b in digits.bytes() {
        if !b.is_ascii_digit() {
            return None;
        }
        v = v.checked_mul(10)?.checked_add((b - b'0') as u64)?;
    }
    Some(v)
}

pub fn frame_line(line: &str) -> Option<LFrame<'_>> {
    let t = line.trim();
    let body = t.strip_prefix("at ")?.strip_suffix(')')?;
    // the parameter part starts at the FIRST '(' ; class and method are separated by the LAST '.' in front of it;
    // file and line by the FIRST ':' behind it
    let open = body.find('(')?;
    let (qualified, inside) = (&body[..open], &body[open + 1..]);
    let dot = qualified.rfind('.')?;
    let colon = inside.find(':')?;
    Some(LFrame { class: &qualified[..dot], method: &qualified[dot + 1..], file: &inside[..colon], line: number(&inside[colon + 1..])? })
}

/// `(class, message)`; the class is everything in front of the first ": " and must not contain a blank
pub fn throwable_line(text: &str) -> Option<(&str, Option<&str>)> {
    let t = text.trim();
    let (class, message) = match t.find(": ") {
        Some(i) => (&t[..i], Some(&t[i + 2..])),
        None => (t, None),
    };
    if class.contains(' ') {
        None
    } else {
        Some((class, message))
    }
}

#[cfg(test)]
mod tests {
    use super::*;
    #[test]
    fn shapes() {
        assert_eq!(frame_line("  at a.b.C.m(F.java:+7) "), Some(LFrame { class: "a.b.C", method: "m", file: "F.java", line: 7 }));
        assert_eq!(frame_line("at a.b(c:1:2)"), None);
        assert_eq!(frame_line("at a.b(c:1) ~[x.jar]"), None);
        assert_eq!(frame_line("at a.b(c(d):1)").map(|f| f.file), Some("c(d)"));
        assert_eq!(frame_line("at a.b(c)d:1)").map(|f| f.file), Some("c)d"));
        assert_eq!(frame_line("at )"), None);
        assert_eq!(throwable_line("a.B: x: y"), Some(("a.B", Some("x: y"))));
        assert_eq!(throwable_line("Exception in thread \"main\" a.B"), None);
        assert_eq!(throwable_line(""), Some(("", None)));
    }
}

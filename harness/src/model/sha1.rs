//! Independent SHA-1 and UUIDv5 (RFC 4122), self-tested against the FIPS 180 vectors.

pub fn sha1(data: &[u8]) -> [u8; 20] {
    let mut h: [u32; 5] = [0x67452301, 0xEFCDAB89, 0x98BADCFE, 0x10325476, 0xC3D2E1F0];
    let ml = (data.len() as u64).wrapping_mul(8);
    let mut msg = data.to_vec();
    msg.push(0x80);
    while msg.len() % 64 != 56 {
        msg.push(0);
    }
    msg.extend_from_slice(&ml.to_be_bytes());
    for chunk in msg.chunks(64) {
        let mut w = [0u32; 80];
        for i in 0..16 {
            w[i] = u32::from_be_bytes([chunk[4 * i], chunk[4 * i + 1], chunk[4 * i + 2], chunk[4 * i + 3]]);
        }
        for i in 16..80 {
            w[i] = (w[i - 3] ^ w[i - 8] ^ w[i - 14] ^ w[i - 16]).rotate_left(1);
        }
        let (mut a, mut b, mut c, mut d, mut e) = (h[0], h[1], h[2], h[3], h[4]);
        for (i, wi) in w.iter().enumerate() {
            let (f, k) = match i {
                0..=19 => ((b & c) | ((!b) & d), 0x5A827999u32),
                20..=39 => (b ^ c ^ d, 0x6ED9EBA1),
                40..=59 => ((b & c) | (b & d) | (c & d), 0x8F1BBCDC),
                _ => (b ^ c ^ d, 0xCA62C1D6),
            };
            let t = a.rotate_left(5).wrapping_add(f).wrapping_add(e).wrapping_add(k).wrapping_add(*wi);
            e = d;
            d = c;
            c = b.rotate_left(30);
            b = a;
            a = t;
        }
        h[0] = h[0].wrapping_add(a);
        h[1] = h[1].wrapping_add(b);
        h[2] = h[2].wrapping_add(c);
        h[3] = h[3].wrapping_add(d);
        h[4] = h[4].wrapping_add(e);
    }
    let mut out = [0u8; 20];
    for (i, v) in h.iter().enumerate() {
        out[4 * i..4 * i + 4].copy_from_slice(&v.to_be_bytes());
    }
    out
}

/// RFC 4122 namespace for DNS names
pub const NAMESPACE_DNS: [u8; 16] = [0x6b, 0xa7, 0xb8, 0x10, 0x9d, 0xad, 0x11, 0xd1, 0x80, 0xb4, 0x00, 0xc0, 0x4f, 0xd4, 0x30, 0xc8];

pub fn uuid_v5(namespace: &[u8; 16], name: &[u8]) -> [u8; 16] {
    let mut input = Vec::with_capacity(16 + name.len());
    input.extend_from_slice(namespace);
    input.extend_from_slice(name);
    let d = sha1(&input);
    let mut u = [0u8; 16];
    u.copy_from_slice(&d[..16]);
    u[6] = (u[6] & 0x0f) | 0x50;
    u[8] = (u[8] & 0x3f) | 0x80;
    u
}

pub fn format_uuid(u: &[u8; 16]) -> String {
    let h: String = u.iter().map(|b| format!("{b:02x}")).collect();
    format!("{}-{}-{}-{}-{}", &h[0..8], &h[8..12], &h[12..16], &h[16..20], &h[20..32])
}

pub fn mapping_uuid(bytes: &[u8]) -> String {
    let ns = uuid_v5(&NAMESPACE_DNS, b"guardsquare.com");
    format_uuid(&uuid_v5(&ns, bytes))
}

fn hexs(d: &[u8]) -> String {
    d.iter().map(|b| format!("{b:02x}")).collect()
}

/// Self-test against published vectors; Err(description) if the model itself is broken.
pub fn self_test() -> Result<(), String> {
    let vectors: [(&[u8], &str); 3] = [
        (b"abc", "a9993e364706816aba3e25717850c26c9cd0d89d"),
        (b"", "da39a3ee5e6b4b0d3255bfef95601890afd80709"),
        (b"abcdbcdecdefdefgefghfghighijhijkijkljklmklmnlmnomnopnopq", "84983e441c3bd26ebaae4aa1f95129e5e54670f1"),
    ];
    for (m, want) in vectors {
        if hexs(&sha1(m)) != want {
            return Err(format!("sha1 self-test failed on {:?}", String::from_utf8_lossy(m)));
        }
    }
    let million = vec![b'a'; 1_000_000];
    if hexs(&sha1(&million)) != "34aa973cd4c4daa4f61eeb2bdbad27316534016f" {
        return Err("sha1 self-test failed on one million 'a'".into());
    }
    // RFC 4122 appendix-style check: v5(DNS, "www.example.com") is widely published
    if format_uuid(&uuid_v5(&NAMESPACE_DNS, b"www.example.com")) != "2ed6657d-e927-568b-95e1-2665a8aea6a2" {
        return Err("uuid v5 self-test failed".into());
    }
    // cross-checked once with Python's hashlib/uuid (see DESIGN.md C18)
    if format_uuid(&uuid_v5(&NAMESPACE_DNS, b"guardsquare.com")) != "4f44f30f-24be-53d0-bab6-f47c7120ad6c" {
        return Err("namespace self-test failed".into());
    }
    if mapping_uuid(b"") != "0e71d76c-5067-5a02-a5d9-7e81070eb125" {
        return Err("empty-input self-test failed".into());
    }
    Ok(())
}

pub mod layout;
pub mod lineparse;
pub mod retrace;
pub mod sha1;
pub mod traceparse;

pub mod layout;
pub mod lineparse;
pub mod retrace;
pub mod sha1;

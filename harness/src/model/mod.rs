pub mod retrace;

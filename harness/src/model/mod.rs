pub mod layout;
pub mod retrace;

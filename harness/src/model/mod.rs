pub mod layout;
pub mod lineparse;
pub mod retrace;

//! Independent decoder of the ProguardCache on-disk layout, written from the module documentation in
//! `src/cache/mod.rs` (structure, ordering) and the documented field lists. Uses only `u32::from_le_bytes`,
//! a LEB128 reader and `str::from_utf8` — nothing from the crate or from watto.

pub const MAGIC: [u8; 4] = *b"PRGC";
pub const VERSION: u32 = 1;
pub const HEADER_LEN: usize = 24;
pub const CLASS_LEN: usize = 28;
pub const MEMBER_LEN: usize = 36;
pub const ABSENT: u32 = u32::MAX;

#[derive(Clone, Copy, Debug, PartialEq, Eq)]
pub struct Header {
    pub magic: u32,
    pub version: u32,
    pub num_classes: u32,
    pub num_members: u32,
    pub num_members_by_params: u32,
    pub string_bytes: u32,
}

#[derive(Clone, Copy, Debug, PartialEq, Eq)]
pub struct ClassRec {
    pub obfuscated_name: u32,
    pub original_name: u32,
    pub file_name: u32,
    pub members_offset: u32,
    pub members_len: u32,
    pub members_by_params_offset: u32,
    pub members_by_params_len: u32,
}

#[derive(Clone, Copy, Debug, PartialEq, Eq)]
pub struct MemberRec {
    pub obfuscated_name: u32,
    pub startline: u32,
    pub endline: u32,
    pub original_class: u32,
    pub original_file: u32,
    pub original_name: u32,
    pub original_startline: u32,
    pub original_endline: u32,
    pub params: u32,
}

pub fn u32_at(b: &[u8], at: usize) -> Option<u32> {
    b.get(at..at + 4).map(|s| u32::from_le_bytes([s[0], s[1], s[2], s[3]]))
}

pub fn align8(n: usize) -> usize {
    (n + 7) & !7
}

pub fn read_header(b: &[u8]) -> Option<Header> {
    if b.len() < HEADER_LEN {
        return None;
    }
    Some(Header {
        magic: u32_at(b, 0)?,
        version: u32_at(b, 4)?,
        num_classes: u32_at(b, 8)?,
        num_members: u32_at(b, 12)?,
        num_members_by_params: u32_at(b, 16)?,
        string_bytes: u32_at(b, 20)?,
    })
}

/// Section offsets implied by a header: (classes, members, by_params, strings, end)
pub fn offsets(h: &Header) -> (usize, usize, usize, usize, usize) {
    let classes = align8(HEADER_LEN);
    let members = align8(classes + CLASS_LEN * h.num_classes as usize);
    let by_params = align8(members + MEMBER_LEN * h.num_members as usize);
    let strings = align8(by_params + MEMBER_LEN * h.num_members_by_params as usize);
    let end = strings + h.string_bytes as usize;
    (classes, members, by_params, strings, end)
}

pub fn required_len(h: &Header) -> usize {
    offsets(h).4
}

#[derive(Clone, Copy, Debug, PartialEq, Eq)]
pub enum ExpectedParse {
    Ok,
    InvalidHeader,
    WrongEndianness,
    WrongFormat,
    WrongVersion,
    InvalidClasses,
    InvalidMembers,
    UnexpectedStringBytes { expected: usize, found: usize },
}

/// What `parse` must answer for an 8-byte-aligned buffer of `len` bytes carrying this header,
/// derived from the documented layout: each section (with its alignment padding) must fit, in order.
pub fn expected_parse(len: usize, header: Option<&Header>) -> ExpectedParse {
    let Some(h) = header else {
        return ExpectedParse::InvalidHeader;
    };
    if len < HEADER_LEN {
        return ExpectedParse::InvalidHeader;
    }
    let magic = u32::from_le_bytes(MAGIC);
    if h.magic == magic.swap_bytes() {
        return ExpectedParse::WrongEndianness;
    }
    if h.magic != magic {
        return ExpectedParse::WrongFormat;
    }
    if h.version != VERSION {
        return ExpectedParse::WrongVersion;
    }
    let (classes, members, by_params, strings, _end) = offsets(h);
    if len < classes || len - classes < CLASS_LEN * h.num_classes as usize {
        return ExpectedParse::InvalidClasses;
    }
    if len < members || len - members < MEMBER_LEN * h.num_members as usize {
        return ExpectedParse::InvalidMembers;
    }
    if len < by_params || len - by_params < MEMBER_LEN * h.num_members_by_params as usize {
        return ExpectedParse::InvalidMembers;
    }
    if len < strings {
        return ExpectedParse::UnexpectedStringBytes { expected: h.string_bytes as usize, found: 0 };
    }
    if len - strings < h.string_bytes as usize {
        return ExpectedParse::UnexpectedStringBytes { expected: h.string_bytes as usize, found: len - strings };
    }
    ExpectedParse::Ok
}

#[derive(Clone, Debug)]
pub struct Layout<'a> {
    pub header: Header,
    pub classes_at: usize,
    pub members_at: usize,
    pub by_params_at: usize,
    pub strings_at: usize,
    pub classes: Vec<ClassRec>,
    pub members: Vec<MemberRec>,
    pub by_params: Vec<MemberRec>,
    pub strings: &'a [u8],
}

fn read_class(b: &[u8], at: usize) -> Option<ClassRec> {
    Some(ClassRec {
        obfuscated_name: u32_at(b, at)?,
        original_name: u32_at(b, at + 4)?,
        file_name: u32_at(b, at + 8)?,
        members_offset: u32_at(b, at + 12)?,
        members_len: u32_at(b, at + 16)?,
        members_by_params_offset: u32_at(b, at + 20)?,
        members_by_params_len: u32_at(b, at + 24)?,
    })
}

fn read_member(b: &[u8], at: usize) -> Option<MemberRec> {
    Some(MemberRec {
        obfuscated_name: u32_at(b, at)?,
        startline: u32_at(b, at + 4)?,
        endline: u32_at(b, at + 8)?,
        original_class: u32_at(b, at + 12)?,
        original_file: u32_at(b, at + 16)?,
        original_name: u32_at(b, at + 20)?,
        original_startline: u32_at(b, at + 24)?,
        original_endline: u32_at(b, at + 28)?,
        params: u32_at(b, at + 32)?,
    })
}

/// Decode a complete file. Errors are human-readable descriptions of the first layout violation.
pub fn decode(b: &[u8]) -> Result<Layout<'_>, String> {
    let header = read_header(b).ok_or("file shorter than the 24-byte header")?;
    if b[0..4] != MAGIC {
        return Err(format!("magic {:?} != PRGC", &b[0..4]));
    }
    if header.version != VERSION {
        return Err(format!("version {} != 1", header.version));
    }
    let (classes_at, members_at, by_params_at, strings_at, end) = offsets(&header);
    if b.len() != end {
        return Err(format!("file length {} != length implied by the header {}", b.len(), end));
    }
    let pad = |from: usize, to: usize| -> Result<(), String> {
        if b[from..to].iter().any(|c| *c != 0) {
            Err(format!("non-zero padding bytes in {from}..{to}"))
        } else {
            Ok(())
        }
    };
    pad(HEADER_LEN, classes_at)?;
    pad(classes_at + CLASS_LEN * header.num_classes as usize, members_at)?;
    pad(members_at + MEMBER_LEN * header.num_members as usize, by_params_at)?;
    pad(by_params_at + MEMBER_LEN * header.num_members_by_params as usize, strings_at)?;
    let classes = (0..header.num_classes as usize)
        .map(|i| read_class(b, classes_at + i * CLASS_LEN).ok_or("class record out of bounds".to_string()))
        .collect::<Result<Vec<_>, _>>()?;
    let members = (0..header.num_members as usize)
        .map(|i| read_member(b, members_at + i * MEMBER_LEN).ok_or("member record out of bounds".to_string()))
        .collect::<Result<Vec<_>, _>>()?;
    let by_params = (0..header.num_members_by_params as usize)
        .map(|i| read_member(b, by_params_at + i * MEMBER_LEN).ok_or("by-params record out of bounds".to_string()))
        .collect::<Result<Vec<_>, _>>()?;
    Ok(Layout { header, classes_at, members_at, by_params_at, strings_at, classes, members, by_params, strings: &b[strings_at..end] })
}

/// unsigned LEB128; returns (value, bytes consumed)
pub fn leb128(b: &[u8]) -> Option<(u64, usize)> {
    let mut v: u64 = 0;
    let mut shift = 0u32;
    for (i, c) in b.iter().enumerate() {
        if shift >= 64 {
            return None;
        }
        v |= ((*c & 0x7f) as u64) << shift;
        if c & 0x80 == 0 {
            return Some((v, i + 1));
        }
        shift += 7;
    }
    None
}

pub fn leb128_encode(mut v: u64) -> Vec<u8> {
    let mut out = Vec::new();
    loop {
        let mut byte = (v & 0x7f) as u8;
        v >>= 7;
        if v != 0 {
            byte |= 0x80;
        }
        out.push(byte);
        if v == 0 {
            return out;
        }
    }
}

/// Decode the string section sequentially: offset -> string. Fails when the section is not a clean
/// concatenation of length-prefixed UTF-8 strings.
pub fn string_table(s: &[u8]) -> Result<std::collections::BTreeMap<u32, &str>, String> {
    let mut out = std::collections::BTreeMap::new();
    let mut at = 0usize;
    while at < s.len() {
        let (len, used) = leb128(&s[at..]).ok_or(format!("bad LEB128 length prefix at string offset {at}"))?;
        let start = at + used;
        let end = start.checked_add(len as usize).filter(|e| *e <= s.len()).ok_or(format!("string at offset {at} (len {len}) runs past the section"))?;
        let text = std::str::from_utf8(&s[start..end]).map_err(|e| format!("string at offset {at} is not UTF-8: {e}"))?;
        out.insert(at as u32, text);
        at = end;
    }
    Ok(out)
}

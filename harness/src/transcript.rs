//! Walking a query universe and comparing two answer sources query by query.

use crate::api::{FrameOut, Retracer, SigOut, TraceAst};
use crate::engine::{fnv_mix, Check, Fail, Stats};
use crate::gen::universe::Universe;
use crate::model::retrace::{MFrame, Model};
use serde_json::json;

/// Auxiliary (non-enumerated) queries attached to a case: throwables, texts, typed traces, signatures.
#[derive(Clone, Debug, Default)]
pub struct Extra {
    pub throwables: Vec<(String, Option<String>)>,
    pub texts: Vec<String>,
    pub typed: Vec<TraceAst>,
    pub sigs: Vec<String>,
}

#[inline]
pub fn qhash(case_hash: u64, kind: u8, parts: &[&[u8]]) -> u64 {
    let mut h = case_hash ^ ((kind as u64) << 56);
    for p in parts {
        for b in *p {
            h ^= *b as u64;
            h = h.wrapping_mul(0x100000001b3);
        }
        h ^= 0xff;
        h = h.wrapping_mul(0x100000001b3);
    }
    h
}

#[derive(Clone, Copy, Debug, Default)]
pub struct Kinds {
    pub class: bool,
    pub method: bool,
    pub line: bool,
    pub params: bool,
    pub throwable: bool,
    pub text: bool,
    pub typed: bool,
    pub sig: bool,
}

impl Kinds {
    pub fn all() -> Kinds {
        Kinds { class: true, method: true, line: true, params: true, throwable: true, text: true, typed: true, sig: true }
    }
    pub fn decoding() -> Kinds {
        Kinds { typed: false, ..Kinds::all() }
    }
}

fn frames_json(v: &[FrameOut]) -> serde_json::Value {
    json!(v
        .iter()
        .map(|f| json!({"class": f.class, "method": f.method, "line": f.line, "file": f.file, "params": f.params}))
        .collect::<Vec<_>>())
}

fn mframes_json(v: &[MFrame]) -> serde_json::Value {
    json!(v
        .iter()
        .map(|f| json!({"class": f.class, "method": f.method, "line": f.line, "file": f.file, "params": f.params}))
        .collect::<Vec<_>>())
}

pub fn same_frames(a: &[FrameOut], b: &[MFrame]) -> bool {
    a.len() == b.len()
        && a.iter().zip(b).all(|(x, y)| {
            x.class == y.class && x.method == y.method && x.line == y.line && x.file == y.file && x.params == y.params
        })
}

/// Compare two implementations on the complete universe. `sig` is the failure signature prefix.
/// Counts one evaluation per query; `nontrivial` is called with a hash for every query with a non-empty answer
/// on at least one side.
pub fn compare_retracers(
    a: &dyn Retracer,
    b: &dyn Retracer,
    u: &Universe,
    extra: &Extra,
    kinds: Kinds,
    case_hash: u64,
    st: &mut Stats,
) -> Check {
    let an = a.name();
    let bn = b.name();
    if kinds.class {
        for (c, _) in u.all_classes() {
            st.evaluations += 1;
            let (x, y) = (a.class(c), b.class(c));
            if x.is_some() || y.is_some() {
                st.nontrivial(qhash(case_hash, b'c', &[c.as_bytes()]));
            }
            if x != y {
                return Err(Fail::new("diff-class", format!("remap_class({c:?}): {an}={x:?} {bn}={y:?}"))
                    .with(json!({"query": {"kind": "class", "class": c}, an: x, bn: y})));
            }
        }
    }
    if kinds.method {
        for (c, ck) in u.all_classes() {
            for (m, mk) in u.all_methods() {
                if !ck && !mk && !c.is_empty() {
                    continue;
                }
                st.evaluations += 1;
                let (x, y) = (a.method(c, m), b.method(c, m));
                if x.is_some() || y.is_some() {
                    st.nontrivial(qhash(case_hash, b'm', &[c.as_bytes(), m.as_bytes()]));
                }
                if x != y {
                    return Err(Fail::new("diff-method", format!("remap_method({c:?},{m:?}): {an}={x:?} {bn}={y:?}"))
                        .with(json!({"query": {"kind": "method", "class": c, "method": m}, an: format!("{x:?}"), bn: format!("{y:?}")})));
                }
            }
        }
    }
    if kinds.line {
        for (c, ck) in u.all_classes() {
            for (m, mk) in u.all_methods() {
                let full = ck && mk;
                if !ck && !mk {
                    continue;
                }
                let lines: &[u64] = if full { &u.lines } else { &u.few_lines };
                for &l in lines {
                    for file in [None, Some("Q.java")] {
                        if !full && file.is_some() {
                            continue;
                        }
                        st.evaluations += 1;
                        let x = a.frame_line(c, m, l, file);
                        let y = b.frame_line(c, m, l, file);
                        if !x.is_empty() || !y.is_empty() {
                            st.nontrivial(qhash(case_hash, b'l', &[c.as_bytes(), m.as_bytes(), &l.to_le_bytes(), &[file.is_some() as u8]]));
                        }
                        if x != y {
                            return Err(Fail::new(
                                "diff-frame-line",
                                format!("remap_frame({c:?},{m:?},{l},{file:?}): {an}={x:?} {bn}={y:?}"),
                            )
                            .with(json!({"query": {"kind": "frame-line", "class": c, "method": m, "line": l, "file": file}, an: frames_json(&x), bn: frames_json(&y)})));
                        }
                    }
                }
                if full {
                    for f in &u.extra_files {
                        for &l in lines.iter().step_by(5) {
                            st.evaluations += 1;
                            let x = a.frame_line(c, m, l, Some(f));
                            let y = b.frame_line(c, m, l, Some(f));
                            if x != y {
                                return Err(Fail::new("diff-frame-line", format!("remap_frame({c:?},{m:?},{l},file {f:?}): {an}={x:?} {bn}={y:?}"))
                                    .with(json!({"query": {"kind": "frame-line", "class": c, "method": m, "line": l, "file": f}, an: frames_json(&x), bn: frames_json(&y)})));
                            }
                        }
                    }
                }
            }
        }
    }
    if kinds.params {
        for (c, ck) in u.all_classes() {
            for (m, mk) in u.all_methods() {
                if !ck && !mk {
                    continue;
                }
                for p in &u.params {
                    st.evaluations += 1;
                    let x = a.frame_params(c, m, p);
                    let y = b.frame_params(c, m, p);
                    if !x.is_empty() || !y.is_empty() {
                        st.nontrivial(qhash(case_hash, b'p', &[c.as_bytes(), m.as_bytes(), p.as_bytes()]));
                        st.class("by-params query with non-empty answer");
                    }
                    if x != y {
                        return Err(Fail::new(
                            "diff-frame-params",
                            format!("remap_frame({c:?},{m:?},params={p:?}): {an}={x:?} {bn}={y:?}"),
                        )
                        .with(json!({"query": {"kind": "frame-params", "class": c, "method": m, "params": p}, an: frames_json(&x), bn: frames_json(&y)})));
                    }
                }
            }
        }
    }
    compare_extra(a, b, extra, kinds, case_hash, st)
}

pub fn compare_extra(a: &dyn Retracer, b: &dyn Retracer, extra: &Extra, kinds: Kinds, case_hash: u64, st: &mut Stats) -> Check {
    let an = a.name();
    let bn = b.name();
    if kinds.throwable {
        for (c, m) in &extra.throwables {
            st.evaluations += 1;
            let x = a.throwable(c, m.as_deref());
            let y = b.throwable(c, m.as_deref());
            if x.is_some() || y.is_some() {
                st.nontrivial(fnv_mix(case_hash, format!("t{c}\0{m:?}").as_bytes()));
            }
            if x != y {
                return Err(Fail::new("diff-throwable", format!("remap_throwable({c:?},{m:?}): {an}={x:?} {bn}={y:?}"))
                    .with(json!({"query": {"kind": "throwable", "class": c, "message": m}})));
            }
        }
    }
    if kinds.text {
        for t in &extra.texts {
            st.evaluations += 1;
            let x = a.text(t);
            let y = b.text(t);
            if x.as_deref().ok() != Some(t.as_str()) {
                st.nontrivial(fnv_mix(case_hash, format!("x{t}").as_bytes()));
            }
            if x != y {
                return Err(Fail::new("diff-text", format!("remap_stacktrace({t:?}): {an}={x:?} {bn}={y:?}"))
                    .with(json!({"query": {"kind": "text", "input": t}, an: format!("{x:?}"), bn: format!("{y:?}")})));
            }
        }
    }
    if kinds.typed {
        for t in &extra.typed {
            st.evaluations += 1;
            let x = a.typed(t);
            let y = b.typed(t);
            if &x != t {
                st.nontrivial(fnv_mix(case_hash, format!("y{t:?}").as_bytes()));
            }
            if x != y {
                return Err(Fail::new("diff-typed", format!("remap_stacktrace_typed({t:?}): {an}={x:?} {bn}={y:?}"))
                    .with(json!({"query": {"kind": "typed", "input": t}})));
            }
        }
    }
    if kinds.sig {
        for s in &extra.sigs {
            st.evaluations += 1;
            let x: Option<SigOut> = a.sig(s);
            let y: Option<SigOut> = b.sig(s);
            if x.is_some() || y.is_some() {
                st.nontrivial(fnv_mix(case_hash, format!("s{s}").as_bytes()));
            }
            if x != y {
                return Err(Fail::new("diff-sig", format!("deobfuscate_signature({s:?}): {an}={x:?} {bn}={y:?}"))
                    .with(json!({"query": {"kind": "sig", "input": s}})));
            }
        }
    }
    Ok(())
}

/// Class lookups of an implementation against the model.
pub fn check_class_model(r: &dyn Retracer, model: &Model, u: &Universe, case_hash: u64, st: &mut Stats) -> Check {
    for (c, _) in u.all_classes() {
        st.evaluations += 1;
        let got = r.class(c);
        let want = model.class(c);
        if want.is_some() {
            st.nontrivial(qhash(case_hash, b'c', &[c.as_bytes()]));
        }
        if got != want {
            return Err(Fail::new("model-class", format!("{}: remap_class({c:?}) = {got:?}, model says {want:?}", r.name()))
                .with(json!({"impl": r.name(), "query": {"kind": "class", "class": c}, "got": got, "want": want})));
        }
    }
    Ok(())
}

/// By-line frame answers of an implementation against the model, over the whole universe.
pub fn check_lines_model(
    r: &dyn Retracer,
    model: &Model,
    u: &Universe,
    case_hash: u64,
    st: &mut Stats,
    mut on_query: impl FnMut(&str, &str, u64, &[MFrame], &mut Stats),
) -> Check {
    for (c, ck) in u.all_classes() {
        for (m, mk) in u.all_methods() {
            let full = ck && mk;
            if !ck && !mk {
                continue;
            }
            let lines: &[u64] = if full { &u.lines } else { &u.few_lines };
            let known = full && model.has_method(c, m);
            for &l in lines {
                for file in [None, Some("Q.java")] {
                    if !full && file.is_some() {
                        continue;
                    }
                    st.evaluations += 1;
                    let want = model.frames_by_line(c, m, l, file);
                    let got = r.frame_line(c, m, l, file);
                    if !want.is_empty() || known {
                        st.nontrivial(qhash(case_hash, b'l', &[c.as_bytes(), m.as_bytes(), &l.to_le_bytes(), &[file.is_some() as u8]]));
                    }
                    on_query(c, m, l, &want, st);
                    if known && file.is_none() && (!want.is_empty() || l % 7 == 0) && (want.len() <= 64 || l % 97 == 0) {
                        st.evaluations += 1;
                        match r.frame_adaptors(c, m, l, None) {
                            Ok(n) if n == got.len() => {}
                            Ok(n) => return Err(Fail::new("frame-iter-api", format!("{}: remap_frame({c:?},{m:?},{l}) yields {n} frames when re-created, {} before", r.name(), got.len())).with(json!({"impl": r.name(), "query": {"kind": "frame-line", "class": c, "method": m, "line": l}}))),
                            Err(e) => return Err(Fail::new("frame-iter-api", format!("{}: iterator of remap_frame({c:?},{m:?},{l}): {e}", r.name())).with(json!({"impl": r.name(), "query": {"kind": "frame-line", "class": c, "method": m, "line": l}}))),
                        }
                    }
                    if !same_frames(&got, &want) {
                        return Err(Fail::new(
                            "model-frame-line",
                            format!("{}: remap_frame({c:?},{m:?},{l},{file:?}) = {got:?}, model says {want:?}", r.name()),
                        )
                        .with(json!({"impl": r.name(), "query": {"kind": "frame-line", "class": c, "method": m, "line": l, "file": file}, "got": frames_json(&got), "want": mframes_json(&want)})));
                    }
                }
            }
            if known {
                // the frame's own file is data, whatever it looks like (the synthetic-class placeholder included)
                for f in &u.extra_files {
                    for &l in lines.iter().step_by(5) {
                        st.evaluations += 1;
                        let want = model.frames_by_line(c, m, l, Some(f.as_str()));
                        let got = r.frame_line(c, m, l, Some(f.as_str()));
                        if !same_frames(&got, &want) {
                            return Err(Fail::new("model-frame-line", format!("{}: remap_frame({c:?},{m:?},{l},file {f:?}) = {got:?}, model says {want:?}", r.name()))
                                .with(json!({"impl": r.name(), "query": {"kind": "frame-line", "class": c, "method": m, "line": l, "file": f}, "got": frames_json(&got), "want": mframes_json(&want)})));
                        }
                    }
                }
            }
        }
    }
    Ok(())
}

pub fn check_params_model(r: &dyn Retracer, model: &Model, u: &Universe, case_hash: u64, st: &mut Stats) -> Check {
    for (c, ck) in u.all_classes() {
        for (m, mk) in u.all_methods() {
            if !ck && !mk {
                continue;
            }
            for p in &u.params {
                st.evaluations += 1;
                let want = model.frames_by_params(c, m, p);
                let got = r.frame_params(c, m, p);
                if !want.is_empty() {
                    st.nontrivial(qhash(case_hash, b'p', &[c.as_bytes(), m.as_bytes(), p.as_bytes()]));
                }
                if ck && mk {
                    st.evaluations += 1;
                    match r.frame_adaptors(c, m, 0, Some(p.as_str())) {
                        Ok(n) if n == got.len() => {}
                        Ok(n) => return Err(Fail::new("frame-iter-api", format!("{}: remap_frame({c:?},{m:?},params {p:?}) yields {n} frames when re-created, {} before", r.name(), got.len()))),
                        Err(e) => return Err(Fail::new("frame-iter-api", format!("{}: iterator of remap_frame({c:?},{m:?},params {p:?}): {e}", r.name())).with(json!({"impl": r.name(), "query": {"kind": "frame-params", "class": c, "method": m, "params": p}}))),
                    }
                }
                if !same_frames(&got, &want) {
                    return Err(Fail::new(
                        "model-frame-params",
                        format!("{}: remap_frame({c:?},{m:?},params={p:?}) = {got:?}, model says {want:?}", r.name()),
                    )
                    .with(json!({"impl": r.name(), "query": {"kind": "frame-params", "class": c, "method": m, "params": p}, "got": frames_json(&got), "want": mframes_json(&want)})));
                }
            }
        }
    }
    Ok(())
}

pub fn check_methods_model(r: &dyn Retracer, model: &Model, u: &Universe, case_hash: u64, st: &mut Stats) -> Check {
    for (c, ck) in u.all_classes() {
        for (m, mk) in u.all_methods() {
            if !ck && !mk && !c.is_empty() {
                continue;
            }
            st.evaluations += 1;
            let want = model.method(c, m);
            let got = r.method(c, m);
            if ck && model.has_method(c, m) {
                st.nontrivial(qhash(case_hash, b'm', &[c.as_bytes(), m.as_bytes()]));
            }
            if got != want {
                return Err(Fail::new(
                    "model-method",
                    format!("{}: remap_method({c:?},{m:?}) = {got:?}, model says {want:?}", r.name()),
                )
                .with(json!({"impl": r.name(), "query": {"kind": "method", "class": c, "method": m}, "got": format!("{got:?}"), "want": format!("{want:?}")})));
            }
        }
    }
    Ok(())
}

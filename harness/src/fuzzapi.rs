//! Entry points shared by the libFuzzer targets (/verif/fuzz) and by `pgverif replay-bin`:
//! each takes raw fuzzer bytes, decodes them into structured arguments and runs the property's oracle.

use crate::engine::{Check, Fail, Stats};
use crate::props::{c06, c12, c13};

/// C06: the input is the mapping bytes; totality + resynchronisation at every line break.
pub fn c06(data: &[u8]) -> Check {
    let mut st = Stats::new();
    c06::check_bytes(data, 6, &mut st)
}

pub const C12_SEEDS: &[&str] = &[
    "a.B -> a:\n    1:5:void m(int):10:14 -> x\n    6:6:void n():20 -> x\n    void o() -> y\n",
    "com.example.Foo -> a:\n# {\"id\":\"sourceFile\",\"fileName\":\"Foo.kt\"}\n    1:1:void com.example.Bar.inl():5:5 -> a\n    1:1:void call():7 -> a\n    2:4:int other(java.lang.String):9:11 -> b\ncom.example.Baz -> b:\n    3:9:void z() -> a\n    3:9:void z(int) -> a\n",
    "x.Y -> c:\n# {\"id\":\"sourceFile\",\"fileName\":\"R8$$SyntheticClass\"}\n    1:2:void a():3:4 -> a\nx.Z -> d:\n    void a() -> a\n    void a() -> a\n    5:5:void q.R.s():1:1 -> b\n    5:5:void t():2 -> b\n",
];

/// C12: byte 0 selects a seed mapping; then groups of 7 bytes (u16 position fraction, u8 mode, u32 value) edit the
/// valid cache; the remaining tail (after a 0xFF 0xFF marker) overwrites bytes behind the header.
pub fn c12(data: &[u8]) -> Check {
    if data.is_empty() {
        return Ok(());
    }
    let seed = C12_SEEDS[data[0] as usize % C12_SEEDS.len()];
    let case = crate::props::common::MapCase {
        file: crate::model::lineparse::to_ast(seed.as_bytes()).ok_or_else(|| Fail::new("harness", "seed mapping not recognised"))?,
        render: Default::default(),
        key: 7,
    };
    let valid = crate::props::common::write_cache(seed.as_bytes())?;
    let mut buf = crate::api::AlignedBuf::new(valid.bytes());
    let len = buf.len();
    let mut at = 1;
    while at + 7 <= data.len() {
        let g = &data[at..at + 7];
        at += 7;
        if g[0] == 0xff && g[1] == 0xff {
            // raw tail
            let tail = &data[at..];
            let start = crate::model::layout::HEADER_LEN + (g[2] as usize * 4) % (len.saturating_sub(24).max(1));
            for (i, b) in tail.iter().enumerate() {
                if start + i < len {
                    buf.bytes_mut()[start + i] = *b;
                }
            }
            break;
        }
        let frac = u16::from_le_bytes([g[0], g[1]]) as usize;
        let value = u32::from_le_bytes([g[3], g[4], g[5], g[6]]);
        // 4-byte aligned position anywhere in the file
        let pos = ((frac * (len / 4)) >> 16) * 4;
        if pos + 4 > len {
            continue;
        }
        let v = match g[2] % 8 {
            0 => 0,
            1 => u32::MAX,
            2 => u32::MAX - 1,
            3 => 1 << 31,
            4 => value % 64,
            5 => value,
            6 => {
                let old = u32::from_le_bytes(buf.bytes()[pos..pos + 4].try_into().unwrap());
                old.wrapping_add(1)
            }
            _ => {
                let old = u32::from_le_bytes(buf.bytes()[pos..pos + 4].try_into().unwrap());
                old.wrapping_sub(1)
            }
        };
        buf.bytes_mut()[pos..pos + 4].copy_from_slice(&v.to_le_bytes());
    }
    let q = c12::queries_for(&case);
    let mut st = Stats::new();
    c12::check_buffer(&buf, &q, "fuzz", 0, &mut st)
}

/// C13: the input is the mapping; the whole pipeline must not panic or fail.
/// A 0x00 byte splits off an optional trace text / signature appended to the query set.
pub fn c13(data: &[u8]) -> Check {
    let mut parts = data.splitn(2, |b| *b == 0);
    let mapping = parts.next().unwrap_or(&[]);
    let extra = parts.next().unwrap_or(&[]);
    let mut st = Stats::new();
    c13::pipeline_opt(mapping, 0x5eed, &mut st, true)?;
    if !extra.is_empty() {
        let text = String::from_utf8_lossy(extra).to_string();
        c13::extra_queries(mapping, &text)?;
    }
    Ok(())
}

pub fn run(id: &str, data: &[u8]) -> Option<Check> {
    Some(match id {
        "C06" => c06(data),
        "C12" => c12(data),
        "C13" => c13(data),
        _ => return None,
    })
}

/// Used by the fuzz targets: panic (=> libFuzzer crash) on an oracle failure.
pub fn must(id: &str, data: &[u8]) {
    if let Some(Err(f)) = run(id, data) {
        panic!("PROPERTY VIOLATION {id} sig={} : {}", f.sig, f.msg);
    }
}

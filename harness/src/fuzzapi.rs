//! Entry points shared by the libFuzzer targets (/verif/fuzz) and by `pgverif replay-bin`:
//! each takes raw fuzzer bytes, decodes them into structured arguments and runs the property's oracle.

use crate::engine::{Check, Fail, Stats};
use crate::props::{c06, c07, c12, c13, c17};

/// C06: the input is the mapping bytes; totality + resynchronisation at every line break.
pub fn c06(data: &[u8]) -> Check {
    let mut st = Stats::new();
    c06::check_bytes(data, 6, &mut st)
}

pub const C12_SEEDS: &[&str] = &[
    "a.B -> a:\n    1:5:void m(int):10:14 -> x\n    6:6:void n():20 -> x\n    void o() -> y\n",
    "com.example.Foo -> a:\n# {\"id\":\"sourceFile\",\"fileName\":\"Foo.kt\"}\n    1:1:void com.example.Bar.inl():5:5 -> a\n    1:1:void call():7 -> a\n    2:4:int other(java.lang.String):9:11 -> b\ncom.example.Baz -> b:\n    3:9:void z() -> a\n    3:9:void z(int) -> a\n",
    "x.Y -> c:\n# {\"id\":\"sourceFile\",\"fileName\":\"R8$$SyntheticClass\"}\n    1:2:void a():3:4 -> a\nx.Z -> d:\n    void a() -> a\n    void a() -> a\n    5:5:void q.R.s():1:1 -> b\n    5:5:void t():2 -> b\n",
];

/// C12: byte 0 selects a seed mapping; then groups of 7 bytes (u16 position fraction, u8 mode, u32 value) edit the
/// valid cache; the remaining tail (after a 0xFF 0xFF marker) overwrites bytes behind the header.
pub fn c12(data: &[u8]) -> Check {
    if data.is_empty() {
        return Ok(());
    }
    let seed = C12_SEEDS[data[0] as usize % C12_SEEDS.len()];
    let case = crate::props::common::MapCase {
        file: crate::model::lineparse::to_ast(seed.as_bytes()).ok_or_else(|| Fail::new("harness", "seed mapping not recognised"))?,
        render: Default::default(),
        key: 7,
    };
    let valid = crate::props::common::write_cache(seed.as_bytes())?;
    let mut buf = crate::api::AlignedBuf::new(valid.bytes());
    let len = buf.len();
    let mut at = 1;
    while at + 7 <= data.len() {
        let g = &data[at..at + 7];
        at += 7;
        if g[0] == 0xff && g[1] == 0xff {
            // raw tail
            let tail = &data[at..];
            let start = crate::model::layout::HEADER_LEN + (g[2] as usize * 4) % (len.saturating_sub(24).max(1));
            for (i, b) in tail.iter().enumerate() {
                if start + i < len {
                    buf.bytes_mut()[start + i] = *b;
                }
            }
            break;
        }
        let frac = u16::from_le_bytes([g[0], g[1]]) as usize;
        let value = u32::from_le_bytes([g[3], g[4], g[5], g[6]]);
        // 4-byte aligned position anywhere in the file
        let pos = ((frac * (len / 4)) >> 16) * 4;
        if pos + 4 > len {
            continue;
        }
        let v = match g[2] % 8 {
            0 => 0,
            1 => u32::MAX,
            2 => u32::MAX - 1,
            3 => 1 << 31,
            4 => value % 64,
            5 => value,
            6 => {
                let old = u32::from_le_bytes(buf.bytes()[pos..pos + 4].try_into().unwrap());
                old.wrapping_add(1)
            }
            _ => {
                let old = u32::from_le_bytes(buf.bytes()[pos..pos + 4].try_into().unwrap());
                old.wrapping_sub(1)
            }
        };
        buf.bytes_mut()[pos..pos + 4].copy_from_slice(&v.to_le_bytes());
    }
    let q = c12::queries_for(&case);
    let mut st = Stats::new();
    c12::check_buffer(&buf, &q, "fuzz", 0, &mut st)
}

/// C13: the input is the mapping; the whole pipeline must not panic or fail.
/// A 0x00 byte splits off an optional trace text / signature appended to the query set.
pub fn c13(data: &[u8]) -> Check {
    let mut parts = data.splitn(2, |b| *b == 0);
    let mapping = parts.next().unwrap_or(&[]);
    let extra = parts.next().unwrap_or(&[]);
    let mut st = Stats::new();
    c13::pipeline_opt(mapping, 0x5eed, &mut st, true)?;
    if !extra.is_empty() {
        let text = String::from_utf8_lossy(extra).to_string();
        c13::extra_queries(mapping, &text)?;
    }
    Ok(())
}

/// C07: byte 0 selects a seed mapping; the rest is the trace text (lossy UTF-8). Oracle: the per-line composition rule,
/// line conservation, mapper == cache, identity under an unrelated mapping.
pub fn c07(data: &[u8]) -> Check {
    if data.is_empty() {
        return Ok(());
    }
    let seed = C12_SEEDS[data[0] as usize % C12_SEEDS.len()].as_bytes();
    let text = String::from_utf8_lossy(&data[1..]).to_string();
    let lines: Vec<crate::gen::trace::TextLine> = text.split('\n').map(|l| crate::gen::trace::TextLine::Raw(l.to_string())).collect();
    let t = crate::gen::trace::TextTrace { lines, eol: if data[0] & 0x80 != 0 { 1 } else { 0 }, final_eol: data[0] & 0x40 != 0 };
    let m = crate::props::common::mapper(seed, false)?;
    let buf = crate::props::common::write_cache(seed)?;
    let cache = crate::props::common::parse_cache(&buf)?;
    let un = crate::props::common::mapper(b"zz.q.Unrelated -> qq.zz:\n    1:1:void x():1 -> y\n", false)?;
    let mut st = Stats::new();
    crate::props::common::no_panic("remap_stacktrace", || {
        c07::check_text(&m, None, &t, &mut st)?;
        c07::check_text(&cache, None, &t, &mut st)?;
        use crate::api::Retracer;
        let input = t.render();
        let (a, b) = (m.text(&input).map_err(|e| Fail::new("text-error", e))?, cache.text(&input).map_err(|e| Fail::new("text-error", e))?);
        if a != b {
            return Err(Fail::new("text-mapper-vs-cache", format!("mapper and cache disagree on {input:?}: {a:?} vs {b:?}")));
        }
        if !input.contains("qq.zz") {
            let ident: String = input.lines().map(|l| format!("{l}\n")).collect();
            let out = un.text(&input).map_err(|e| Fail::new("text-error", e))?;
            if out != ident {
                return Err(Fail::new("text-identity", format!("with an unrelated mapping the output {out:?} differs from the input lines {ident:?}")));
            }
        }
        Ok(())
    })
}

/// C17 from the text side: whatever parses to a trace inside the statement's domain must survive print -> parse ->
/// print unchanged (the fuzzer explores the parser's image; the domain predicate is the one of the proptest stage).
pub fn c17(data: &[u8]) -> Check {
    let mut st = Stats::new();
    // (a) structure-aware: fields separated by 0x00 (0x01 starts a cause level) are decoded straight into a trace —
    // not through the parser, whose normalisations would hide themselves — and go through the print -> parse round trip
    if data.contains(&0) {
        let mut levels: Vec<crate::api::TraceAst> = Vec::new();
        for level in data.split(|b| *b == 1).take(6) {
            let f: Vec<String> = level.split(|b| *b == 0).map(|x| String::from_utf8_lossy(x).to_string()).collect();
            let exception = match f.first() {
                Some(c) if !c.is_empty() => Some(crate::api::ThrowableAst { class: c.clone(), message: f.get(1).filter(|m| !m.is_empty()).cloned() }),
                _ => None,
            };
            let frames: Vec<crate::api::FrameAst> = f
                .get(2..)
                .unwrap_or(&[])
                .chunks(4)
                .filter(|c| c.len() == 4)
                .take(12)
                .map(|c| crate::api::FrameAst { class: c[0].clone(), method: c[1].clone(), file: Some(c[2].clone()), line: c[3].bytes().fold(0u64, |a, b| a.wrapping_mul(31).wrapping_add(b as u64)) % 100_000, params: None })
                .collect();
            levels.push(crate::api::TraceAst { exception, frames, cause: None });
        }
        let mut t: Option<crate::api::TraceAst> = None;
        for mut l in levels.into_iter().rev() {
            l.cause = t.take().map(Box::new);
            t = Some(l);
        }
        if let Some(t) = t {
            c17::check_trace(&t, &mut st)?;
            for f in &t.frames {
                if c17::frame_in_domain(f) {
                    c17::check_frame(f, &mut st)?;
                }
            }
        }
        return Ok(());
    }
    // (b) from the text side
    let text = String::from_utf8_lossy(data).to_string();
    let parsed = crate::engine::guarded(|| proguard::StackTrace::try_parse(text.as_bytes()).map(|t| crate::api::proguard::from_trace(&t))).map_err(|p| Fail::new("parse-panic", p))?;
    if let Some(t) = parsed {
        c17::check_trace(&t, &mut st)?;
        for f in &t.frames {
            if c17::frame_in_domain(f) {
                c17::check_frame(f, &mut st)?;
            }
        }
    }
    Ok(())
}

pub fn run(id: &str, data: &[u8]) -> Option<Check> {
    Some(match id {
        "C07" => c07(data),
        "C17" => c17(data),
        "C06" => c06(data),
        "C12" => c12(data),
        "C13" => c13(data),
        _ => return None,
    })
}

/// Used by the fuzz targets: panic (=> libFuzzer crash) on an oracle failure.
pub fn must(id: &str, data: &[u8]) {
    if let Some(Err(f)) = run(id, data) {
        panic!("PROPERTY VIOLATION {id} sig={} : {}", f.sig, f.msg);
    }
}

pub mod api;
pub mod engine;
pub mod gen;
pub mod model;
pub mod props;
pub mod transcript;

pub mod api;
pub mod engine;
pub mod fuzzapi;
pub mod gen;
pub mod model;
pub mod props;
pub mod transcript;

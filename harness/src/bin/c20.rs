//! C20 — mapper and cache are shareable across threads and answer as if queried alone.
//! Separate binary: the static part consists of compile-time auto-trait assertions, so a type that stops being
//! `Send`/`Sync` breaks *this* build only (reported as the violation by tools/c20.sh), not the other 19 checks.

use pgverif::api::proguard as cur;
use pgverif::api::Retracer;
use pgverif::engine::{fnv64, fnv_mix, Check, Ctx, Fail, Report, Stats, Tier};
use pgverif::gen::mapping::GenCfg;
use pgverif::gen::universe::Universe;
use pgverif::props::common::*;
use serde_json::json;
use std::sync::Barrier;

// ---------------------------------------------------------------------------------------------
// static part

fn assert_send_sync<T: Send + Sync>() {}
fn assert_val_send_sync<T: Send + Sync>(_: &T) {}

#[allow(dead_code)]
fn static_assertions() -> usize {
    assert_send_sync::<proguard::ProguardMapper<'static>>();
    assert_send_sync::<proguard::ProguardMapping<'static>>();
    assert_send_sync::<proguard::ProguardCache<'static>>();
    assert_send_sync::<proguard::ProguardRecordIter<'static>>();
    assert_send_sync::<proguard::ProguardRecord<'static>>();
    assert_send_sync::<proguard::RemappedFrameIter<'static>>();
    assert_send_sync::<proguard::StackFrame<'static>>();
    assert_send_sync::<proguard::StackTrace<'static>>();
    assert_send_sync::<proguard::Throwable<'static>>();
    assert_send_sync::<proguard::DeobfuscatedSignature>();
    assert_send_sync::<proguard::CacheError>();
    assert_send_sync::<proguard::CacheErrorKind>();
    assert_send_sync::<proguard::ParseError<'static>>();
    assert_send_sync::<proguard::LineMapping>();
    assert_send_sync::<proguard::MappingSummary<'static>>();
    15
}

/// the cache's frame iterator type is not exported: assert on the value
fn static_assertions_values() -> usize {
    let mapping = proguard::ProguardMapping::new(b"a.B -> a:\n    1:2:void m():3:4 -> x\n");
    let mut v = Vec::new();
    proguard::ProguardCache::write(&mapping, &mut v).unwrap();
    let buf = pgverif::api::AlignedBuf::new(&v);
    let cache = proguard::ProguardCache::parse(buf.bytes()).unwrap();
    let frame = proguard::StackFrame::new("a", "x", 1);
    let it = cache.remap_frame(&frame);
    assert_val_send_sync(&it);
    let mapper = proguard::ProguardMapper::new(mapping.clone());
    let it2 = mapper.remap_frame(&frame);
    assert_val_send_sync(&it2);
    assert_val_send_sync(&mapping.iter());
    assert_val_send_sync(&mapping.summary());
    // sending (not only sharing) the handles to another thread
    std::thread::scope(|s| {
        let m = mapper;
        let c = cache;
        s.spawn(move || {
            let f = proguard::StackFrame::new("a", "x", 2);
            assert_eq!(m.remap_frame(&f).count(), 1);
            assert_eq!(c.remap_frame(&f).count(), 1);
        });
    });
    4
}

// ---------------------------------------------------------------------------------------------
// dynamic part

#[derive(Clone, Debug)]
enum Q {
    Class(String),
    Method(String, String),
    Line(String, String, u64),
    Params(String, String, String),
    Text(String),
    Sig(String),
    Typed(pgverif::api::TraceAst),
}

fn answer(r: &dyn Retracer, q: &Q) -> u64 {
    match q {
        Q::Class(c) => fnv64(format!("{:?}", r.class(c)).as_bytes()),
        Q::Method(c, m) => fnv64(format!("{:?}", r.method(c, m)).as_bytes()),
        Q::Line(c, m, l) => fnv64(format!("{:?}", r.frame_line(c, m, *l, Some("F.java"))).as_bytes()),
        Q::Params(c, m, p) => fnv64(format!("{:?}", r.frame_params(c, m, p)).as_bytes()),
        Q::Text(t) => fnv64(format!("{:?}", r.text(t)).as_bytes()),
        Q::Sig(s) => fnv64(format!("{:?}", r.sig(s)).as_bytes()),
        Q::Typed(t) => fnv64(format!("{:?}", r.typed(t)).as_bytes()),
    }
}

fn nonempty(r: &dyn Retracer, q: &Q) -> bool {
    match q {
        Q::Class(c) => r.class(c).is_some(),
        Q::Method(c, m) => r.method(c, m).is_some(),
        Q::Line(c, m, l) => !r.frame_line(c, m, *l, None).is_empty(),
        Q::Params(c, m, p) => !r.frame_params(c, m, p).is_empty(),
        Q::Text(_) => true,
        Q::Sig(s) => r.sig(s).is_some(),
        Q::Typed(_) => true,
    }
}

fn queries(case: &MapCase) -> Vec<Q> {
    let u = Universe::from_ast(&case.file, false);
    let mut qs = Vec::new();
    for c in &u.known_classes {
        qs.push(Q::Class(c.clone()));
        for m in &u.known_methods {
            qs.push(Q::Method(c.clone(), m.clone()));
            for l in u.lines.iter().step_by(3) {
                qs.push(Q::Line(c.clone(), m.clone(), *l));
            }
            for p in &u.params {
                qs.push(Q::Params(c.clone(), m.clone(), p.clone()));
            }
        }
    }
    for c in u.other_classes.iter().take(5) {
        qs.push(Q::Class(c.clone()));
    }
    // many *distinct* keys per kind, so that any memo / cache layer inside the handles sees concurrent first-time
    // inserts while other threads read
    let extra = derive_extra(&u, case.key, 24, 0, 160);
    qs.extend(extra.texts.into_iter().map(Q::Text));
    qs.extend(extra.sigs.into_iter().map(Q::Sig));
    // deep cause chains through the typed API (per-call recursion state must not be shared between threads)
    let pool = name_pool_for(&case.file, &u);
    for t in pgverif::engine::sample_n(&pgverif::gen::trace::deep_trace(&pool), case.key ^ 0x20, 2) {
        qs.push(Q::Typed(t));
    }
    for t in pgverif::engine::sample_n(&pgverif::gen::trace::trace(&pool, 5, 3), case.key ^ 0x21, 6) {
        qs.push(Q::Typed(t));
    }
    for i in 0..40 {
        qs.push(Q::Class(format!("zz.unknown.C{i}")));
        qs.push(Q::Sig(format!("(I[Lzz/U{i};J)La/a;")));
    }
    qs
}

fn xorshift(x: &mut u64) -> u64 {
    *x ^= *x << 13;
    *x ^= *x >> 7;
    *x ^= *x << 17;
    *x
}

fn check_case(case: &MapCase, st: &mut Stats) -> Check {
    let bytes = case.bytes();
    let qs = queries(case);
    if st.want_sample() && case.file.n_methods() >= 3 {
        st.sample(|| json!({"mapping": pgverif::engine::show_bytes(&bytes), "queries": qs.len(), "thread_counts": [2, 3, 4, 8, 16], "rounds": 3}));
    }
    if st.cases % 4 == 0 {
        shared_values(&bytes, case.key, st)?;
        shared_fresh_results(&bytes, 6, st)?;
        deep_concurrent(&bytes, case, st)?;
    }
    stress(&bytes, &qs, case.key, case.hash(), st)
}

/// large structured mappings (fast paths that only exist above a size threshold) under the same stress
fn check_scale(c: &pgverif::props::scale::ScaleCase, st: &mut Stats) -> Check {
    let (file, u) = pgverif::props::scale::build(c.kind, c.n);
    let bytes = file.render(&pgverif::gen::mapping::Render::default());
    let mut qs = Vec::new();
    for cl in &u.known_classes {
        qs.push(Q::Class(cl.clone()));
        for m in &u.known_methods {
            qs.push(Q::Method(cl.clone(), m.clone()));
            for l in u.lines.iter().filter(|l| **l < 100_000) {
                qs.push(Q::Line(cl.clone(), m.clone(), *l));
            }
            for p in u.params.iter().take(12) {
                qs.push(Q::Params(cl.clone(), m.clone(), p.clone()));
            }
        }
    }
    // every line of an overlapping-range method: neighbouring lines match different subsets of the entries
    if c.kind == pgverif::props::scale::Kind::ManyOverlap {
        for l in 0..(c.n as u64 + 70) {
            qs.push(Q::Line("f".into(), "v".into(), l));
        }
    }
    st.class(&format!("scale mapping under stress: {:?}", c.kind));
    // on large mappings whatever a result object computes on first access takes long enough to be overlapped
    shared_fresh_results(&bytes, 2, st)?;
    stress(&bytes, &qs, c.n as u64, fnv64(format!("{:?}{}", c.kind, c.n).as_bytes()), st)
}

/// Per-call state must be per call: every thread remaps its own DEEP typed trace (1200 cause levels, threads with a
/// 256 MiB stack) at the same moment. Anything the library keeps per process instead of per call — a depth counter,
/// a budget, a scratch stack — then sees the sum over all threads (16 x 1200 levels at once).
fn deep_concurrent(bytes: &[u8], case: &MapCase, st: &mut Stats) -> Check {
    let u = Universe::from_ast(&case.file, false);
    if u.known_classes.is_empty() {
        return Ok(());
    }
    let depth = 1200usize;
    let mut cause: Option<Box<pgverif::api::TraceAst>> = None;
    for i in (0..depth).rev() {
        let class = u.known_classes[i % u.known_classes.len()].clone();
        let method = if u.known_methods.is_empty() { "m".to_string() } else { u.known_methods[i % u.known_methods.len()].clone() };
        let t = pgverif::api::TraceAst {
            exception: Some(pgverif::api::ThrowableAst { class: class.clone(), message: if i % 3 == 0 { None } else { Some(format!("level {i}")) } }),
            frames: vec![pgverif::api::FrameAst { class, method, file: Some("F.java".into()), line: 1 + (i as u64 % 7), params: None }],
            cause,
        };
        cause = Some(Box::new(t));
    }
    let q = Q::Typed(*cause.unwrap());
    let buf = write_cache(bytes)?;
    const STACK: usize = 256 << 20;
    for name in ["mapper", "cache"] {
        let m = mapper(bytes, true)?;
        let c = parse_cache(&buf)?;
        let r: &(dyn Retracer + Sync) = if name == "mapper" { &m } else { &c };
        let alone: u64 = std::thread::scope(|sc| std::thread::Builder::new().stack_size(STACK).spawn_scoped(sc, || answer(r, &q)).unwrap().join()).map_err(|_| Fail::new("thread-panic", format!("{name}: the deep typed trace panicked when remapped alone")))?;
        for threads in [4usize, 16] {
            let gate = std::sync::atomic::AtomicUsize::new(0);
            let bad: Vec<Option<bool>> = std::thread::scope(|sc| {
                let hs: Vec<_> = (0..threads)
                    .map(|_| {
                        let (gate, q) = (&gate, &q);
                        std::thread::Builder::new()
                            .stack_size(STACK)
                            .spawn_scoped(sc, move || {
                                let mut differs = false;
                                for round in 0..3 {
                                    gate.fetch_add(1, std::sync::atomic::Ordering::AcqRel);
                                    let target = (round + 1) * threads;
                                    let mut spins = 0u32;
                                    while gate.load(std::sync::atomic::Ordering::Acquire) < target {
                                        spins += 1;
                                        if spins > 2000 {
                                            std::thread::yield_now();
                                        } else {
                                            std::hint::spin_loop();
                                        }
                                    }
                                    if answer(r, q) != alone {
                                        differs = true;
                                    }
                                }
                                differs
                            })
                            .unwrap()
                    })
                    .collect();
                hs.into_iter().map(|h| h.join().ok()).collect()
            });
            st.evaluations += (threads * 3) as u64;
            if bad.iter().any(|b| b.is_none()) {
                return Err(Fail::new("thread-panic", format!("{name}: a thread remapping a {depth}-level typed trace panicked with {threads} threads")));
            }
            if bad.iter().any(|b| *b == Some(true)) {
                return Err(Fail::new("concurrent-answer-differs", format!("{name}: {threads} threads remapping a {depth}-level typed trace at the same moment: one of them got a different answer than when issued alone")).with(json!({"impl": name, "threads": threads, "deep": depth})));
            }
        }
    }
    st.class("deep typed traces (1200 cause levels) remapped by 4 and 16 threads at the same moment");
    Ok(())
}

/// Result objects whose FIRST read happens under contention: a fresh `MappingSummary`, `DeobfuscatedSignature` and
/// remapped `StackTrace` (never read before) are shared by reference, all threads leave a spin gate together and read
/// every accessor at once; each must see what a thread reading its own object alone sees. (A result object that fills
/// itself in lazily on first access has its race exactly here; `shared_values` reads objects made per thread.)
fn shared_fresh_results(bytes: &[u8], reps: usize, st: &mut Stats) -> Check {
    let read_summary = |s: &proguard::MappingSummary| format!("{} {} {:?} {:?} {:?}", s.class_count(), s.method_count(), s.compiler(), s.compiler_version(), s.min_api());
    let read_sig = |d: &Option<proguard::DeobfuscatedSignature>| d.as_ref().map(|d| format!("{} | {} | {:?} | {d}", d.format_signature(), d.return_type(), d.parameters_types().collect::<Vec<_>>()));
    let mapping = proguard::ProguardMapping::new(bytes);
    let mapper = proguard::ProguardMapper::new(proguard::ProguardMapping::new(bytes));
    let trace_text = "a.b: boom\n    at a.b.c(F.java:3)\n    at x.y(G:7)\nCaused by: c.d\n    at e.f(H:1)\n";
    let trace = proguard::StackTrace::try_parse(trace_text.as_bytes()).unwrap();
    let alone_summary = read_summary(&mapping.summary());
    let alone_sig = read_sig(&mapper.deobfuscate_signature("(La;I[[J)Lb;"));
    let alone_trace = mapper.remap_stacktrace_typed(&trace).to_string();
    for threads in [2usize, 8, 16] {
        for _rep in 0..reps {
            let summary = mapping.summary();
            let sig = mapper.deobfuscate_signature("(La;I[[J)Lb;");
            let remapped = mapper.remap_stacktrace_typed(&trace);
            let gate = std::sync::atomic::AtomicUsize::new(0);
            let bad: Vec<Option<String>> = std::thread::scope(|sc| {
                let hs: Vec<_> = (0..threads)
                    .map(|t| {
                        let (summary, sig, remapped, gate) = (&summary, &sig, &remapped, &gate);
                        let (alone_summary, alone_sig, alone_trace) = (&alone_summary, &alone_sig, &alone_trace);
                        sc.spawn(move || {
                            gate.fetch_add(1, std::sync::atomic::Ordering::AcqRel);
                            let mut spins = 0u32;
                            while gate.load(std::sync::atomic::Ordering::Acquire) < threads {
                                spins += 1;
                                if spins > 2000 {
                                    std::thread::yield_now();
                                } else {
                                    std::hint::spin_loop();
                                }
                            }
                            // threads start with different objects so that each object's first read has company
                            for k in 0..3 {
                                match (t + k) % 3 {
                                    0 => {
                                        for _ in 0..2 {
                                            let got = read_summary(summary);
                                            if &got != alone_summary {
                                                return Some(format!("shared fresh MappingSummary read {got:?}, alone it reads {alone_summary:?}"));
                                            }
                                        }
                                    }
                                    1 => {
                                        let got = read_sig(sig);
                                        if &got != alone_sig {
                                            return Some(format!("shared fresh DeobfuscatedSignature read {got:?}, alone it reads {alone_sig:?}"));
                                        }
                                    }
                                    _ => {
                                        let got = remapped.to_string();
                                        if &got != alone_trace {
                                            return Some(format!("shared fresh StackTrace printed {got:?}, alone it prints {alone_trace:?}"));
                                        }
                                    }
                                }
                            }
                            None
                        })
                    })
                    .collect();
                hs.into_iter().map(|h| h.join().unwrap_or(Some("a thread panicked".into()))).collect()
            });
            st.evaluations += (threads * 4) as u64;
            if let Some(Some(msg)) = bad.into_iter().find(|b| b.is_some()) {
                return Err(Fail::new("shared-fresh-result-differs", format!("with {threads} threads: {msg}")).with(json!({"threads": threads})));
            }
        }
    }
    st.class("fresh result objects (MappingSummary, DeobfuscatedSignature, StackTrace) first read under lockstep");
    Ok(())
}

/// The `ProguardMapping` and the *result objects* are part of the statement as well: one mapping shared by reference
/// (has_line_info / is_valid / summary / iter / uuid / section), one `DeobfuscatedSignature`, `StackTrace`, `StackFrame`
/// and `Throwable` shared by reference and formatted / read from many threads at once.
fn shared_values(bytes: &[u8], key: u64, st: &mut Stats) -> Check {
    let text_sigs = ["(La;I[[J)Lb;", "()V", "([Lcom/example/Foo;)I", "(ZBCSIJFD)Ljava/lang/String;"];
    let describe = |m: &proguard::ProguardMapping| {
        let s = m.summary();
        format!("{} {} {} {} {:?} {:?} {:?} {} {}", m.has_line_info(), m.is_valid(), s.class_count(), s.method_count(), s.compiler(), s.compiler_version(), s.min_api(), m.iter().count(), m.uuid())
    };
    // ranges at line starts
    let mut cuts: Vec<usize> = vec![0];
    cuts.extend(bytes.iter().enumerate().filter(|(_, c)| **c == b'\n').map(|(i, _)| i + 1).take(12));
    cuts.push(bytes.len());
    cuts.dedup();
    let ranges: Vec<(usize, usize)> = cuts.iter().flat_map(|a| cuts.iter().filter(move |b| *b > a).map(move |b| (*a, *b))).take(20).collect();
    // answers "alone": every section as a fresh mapping over its own bytes
    let alone_whole = describe(&proguard::ProguardMapping::new(bytes));
    let alone_sections: Vec<String> = ranges.iter().map(|(a, b)| describe(&proguard::ProguardMapping::new(&bytes[*a..*b]))).collect();
    let alone_mapper = proguard::ProguardMapper::new(proguard::ProguardMapping::new(bytes));
    let alone_sigs: Vec<Option<(String, String, Vec<String>)>> = text_sigs
        .iter()
        .map(|s| alone_mapper.deobfuscate_signature(s).map(|d| (d.format_signature(), d.return_type().to_string(), d.parameters_types().map(|x| x.to_string()).collect())))
        .collect();
    for threads in [2usize, 4, 8, 16] {
        // fresh shared values for every thread count
        let shared = proguard::ProguardMapping::new(bytes);
        let mapper = proguard::ProguardMapper::new(proguard::ProguardMapping::new(bytes));
        let sigs: Vec<Option<proguard::DeobfuscatedSignature>> = text_sigs.iter().map(|s| mapper.deobfuscate_signature(s)).collect();
        let trace_text = "a.b: boom\n    at a.b.c(F.java:3)\n    at x.y(G:7)\nCaused by: c.d\n    at e.f(H:1)\n";
        let trace = proguard::StackTrace::try_parse(trace_text.as_bytes()).unwrap();
        let remapped = mapper.remap_stacktrace_typed(&trace);
        let alone_trace = remapped.to_string();
        let barrier = Barrier::new(threads);
        let bad: Vec<Option<String>> = std::thread::scope(|sc| {
            let hs: Vec<_> = (0..threads)
                .map(|t| {
                    let (shared, sigs, remapped, barrier) = (&shared, &sigs, &remapped, &barrier);
                    let (alone_whole, alone_sections, alone_sigs, alone_trace, ranges) = (&alone_whole, &alone_sections, &alone_sigs, &alone_trace, &ranges);
                    sc.spawn(move || {
                        let mut seed = fnv_mix(key, &[t as u8, threads as u8, 7]) | 1;
                        let mut first_bad = None;
                        barrier.wait();
                        for round in 0..3 {
                            // odd threads ask the sections first, even threads the parent first
                            let order: Vec<usize> = if (t + round) % 2 == 0 { (0..=ranges.len()).collect() } else { (0..=ranges.len()).rev().collect() };
                            for i in order {
                                if xorshift(&mut seed) % 4 == 0 {
                                    std::thread::yield_now();
                                }
                                let (got, want) = if i == ranges.len() {
                                    (describe(shared), alone_whole.clone())
                                } else {
                                    let (a, b) = ranges[i];
                                    (describe(&shared.section(a..b)), alone_sections[i].clone())
                                };
                                if got != want && first_bad.is_none() {
                                    first_bad = Some(format!("shared ProguardMapping: {} answered {got:?}, alone it answers {want:?}", if i == ranges.len() { "the mapping".to_string() } else { format!("section {:?}", ranges[i]) }));
                                }
                            }
                            for (d, want) in sigs.iter().zip(alone_sigs.iter()) {
                                let got = d.as_ref().map(|d| (d.format_signature(), d.return_type().to_string(), d.parameters_types().map(|x| x.to_string()).collect::<Vec<_>>()));
                                let disp = d.as_ref().map(|d| d.to_string());
                                if (&got != want || disp != want.as_ref().map(|w| w.0.clone())) && first_bad.is_none() {
                                    first_bad = Some(format!("shared DeobfuscatedSignature answered {got:?} / Display {disp:?}, alone it answers {want:?}"));
                                }
                            }
                            let t2 = remapped.to_string();
                            if &t2 != alone_trace && first_bad.is_none() {
                                first_bad = Some(format!("shared StackTrace printed {t2:?}, alone it prints {alone_trace:?}"));
                            }
                        }
                        first_bad
                    })
                })
                .collect();
            hs.into_iter().map(|h| h.join().unwrap_or(Some("a thread panicked".into()))).collect()
        });
        st.evaluations += (threads * 3 * (ranges.len() + 1 + text_sigs.len() + 1)) as u64;
        if let Some(Some(msg)) = bad.into_iter().find(|b| b.is_some()) {
            return Err(Fail::new("shared-value-answer-differs", format!("with {threads} threads: {msg}")).with(json!({"threads": threads})));
        }
    }
    st.class("shared ProguardMapping (incl. sections) and shared result objects");
    Ok(())
}

fn stress(bytes: &[u8], qs: &[Q], key: u64, case_hash: u64, st: &mut Stats) -> Check {
    let bytes = bytes.to_vec();
    let qs: Vec<Q> = qs.to_vec();
    let buf = write_cache(&bytes)?;
    if qs.is_empty() {
        return Ok(());
    }
    for name in ["mapper", "cache"] {
        // single-threaded transcript, taken on its own instance: the instances queried concurrently below are
        // fresh (never queried before), so lazily filled internal state starts cold under contention
        let alone_m = mapper(&bytes, true)?;
        let alone_c = parse_cache(&buf)?;
        let alone_r: &(dyn Retracer + Sync) = if name == "mapper" { &alone_m } else { &alone_c };
        let alone: Vec<u64> = qs.iter().map(|q| answer(alone_r, q)).collect();
        let n_nonempty = qs.iter().filter(|q| nonempty(alone_r, q)).count();
        for threads in [2usize, 3, 4, 8, 16] {
            let fresh_m = mapper(&bytes, true)?;
            let fresh_c = parse_cache(&buf)?;
            let r: &(dyn Retracer + Sync) = if name == "mapper" { &fresh_m } else { &fresh_c };
            let barrier = Barrier::new(threads);
            let rounds = 3;
            let bad: Vec<Option<(usize, u64)>> = std::thread::scope(|sc| {
                let hs: Vec<_> = (0..threads)
                    .map(|t| {
                        let qs = &qs;
                        let alone = &alone;
                        let barrier = &barrier;
                        let key = key;
                        sc.spawn(move || {
                            let mut seed = fnv_mix(key, &[t as u8, threads as u8]) | 1;
                            // round 0: every thread asks everything (cold start, maximal overlap); later rounds: every thread
                            // owns a slice and also re-asks a quarter of its neighbours' queries
                            let all: Vec<usize> = (0..qs.len()).collect();
                            let slice: Vec<usize> = (0..qs.len()).filter(|i| i % threads == t || (i + 1) % (threads * 4) == t).collect();
                            let mut first_bad = None;
                            for round in 0..rounds {
                                let mut mine = if round == 0 { all.clone() } else { slice.clone() };
                                // seeded permutation
                                for i in (1..mine.len()).rev() {
                                    let j = (xorshift(&mut seed) % (i as u64 + 1)) as usize;
                                    mine.swap(i, j);
                                }
                                barrier.wait();
                                for &qi in &mine {
                                    match xorshift(&mut seed) % 8 {
                                        0 => std::thread::yield_now(),
                                        1 => {
                                            for _ in 0..(seed % 64) {
                                                std::hint::spin_loop();
                                            }
                                        }
                                        _ => {}
                                    }
                                    let a = answer(r, &qs[qi]);
                                    if a != alone[qi] && first_bad.is_none() {
                                        first_bad = Some((qi, a));
                                    }
                                }
                            }
                            first_bad
                        })
                    })
                    .collect();
                hs.into_iter().map(|h| h.join().unwrap_or(Some((usize::MAX, 0)))).collect()
            });
            st.evaluations += (qs.len() * (threads + rounds - 1)) as u64;
            if n_nonempty >= 2 {
                st.nontrivial(fnv_mix(case_hash, &[threads as u8, name.len() as u8]));
            }
            st.class(&format!("{threads} threads"));
            if let Some(Some((qi, _))) = bad.iter().find(|b| b.is_some()) {
                if *qi == usize::MAX {
                    return Err(Fail::new("thread-panic", format!("{name}: a query thread panicked with {threads} threads")));
                }
                return Err(Fail::new("concurrent-answer-differs", format!("{name}: with {threads} threads query {:?} returned a different answer than when issued alone", qs[*qi])).with(json!({"impl": name, "threads": threads})));
            }
        }
        // lockstep: on a fresh instance all threads issue the SAME query at the same moment (spin barrier before every
        // query), so that whatever a first use of a key initialises is initialised under maximal contention
        for threads in [2usize, 8] {
            let fresh_m = mapper(&bytes, true)?;
            let fresh_c = parse_cache(&buf)?;
            let r: &(dyn Retracer + Sync) = if name == "mapper" { &fresh_m } else { &fresh_c };
            // at most ~600 lockstep queries per instance, spread over the list (first uses are what matters)
            let step = (qs.len() / 600).max(1);
            let picked: Vec<usize> = (0..qs.len()).step_by(step).collect();
            let gate = std::sync::atomic::AtomicUsize::new(0);
            let bad: Vec<Option<usize>> = std::thread::scope(|sc| {
                let hs: Vec<_> = (0..threads)
                    .map(|_| {
                        let (qs, alone, gate, picked) = (&qs, &alone, &gate, &picked);
                        sc.spawn(move || {
                            let mut first_bad = None;
                            for (round, &qi) in picked.iter().enumerate() {
                                gate.fetch_add(1, std::sync::atomic::Ordering::AcqRel);
                                let target = (round + 1) * threads;
                                let mut spins = 0u32;
                                while gate.load(std::sync::atomic::Ordering::Acquire) < target {
                                    spins += 1;
                                    if spins > 2000 {
                                        std::thread::yield_now();
                                    } else {
                                        std::hint::spin_loop();
                                    }
                                }
                                let a = answer(r, &qs[qi]);
                                if a != alone[qi] && first_bad.is_none() {
                                    first_bad = Some(qi);
                                }
                            }
                            first_bad
                        })
                    })
                    .collect();
                hs.into_iter().map(|h| h.join().unwrap_or(Some(usize::MAX))).collect()
            });
            st.evaluations += (picked.len() * threads) as u64;
            st.class(&format!("lockstep first use, {threads} threads"));
            if let Some(Some(qi)) = bad.iter().find(|b| b.is_some()) {
                if *qi == usize::MAX {
                    return Err(Fail::new("thread-panic", format!("{name}: a query thread panicked in the lockstep round with {threads} threads")));
                }
                return Err(Fail::new("concurrent-answer-differs", format!("{name}: {threads} threads issuing query {:?} at the same moment as the first use of a fresh instance: one of them got a different answer than when issued alone", qs[*qi])).with(json!({"impl": name, "threads": threads, "lockstep": true})));
            }
        }
    }
    Ok(())
}

// ---------------------------------------------------------------------------------------------
// mass stage: very many *distinct* keys on ONE shared mapper and ONE shared cache

#[derive(Clone, Debug, serde::Serialize, serde::Deserialize)]
struct MassCase {
    threads: usize,
    per_thread: u64,
    /// first key of the run (keys are consecutive from here, thread t owns the keys congruent to t)
    start: u64,
}

/// (descriptor encoding, Java rendering) of the parameter / return alphabets over c16::FIXED_MAPPING
const MASS_PARAMS: [(&str, &str); 9] = [
    ("I", "int"),
    ("J", "long"),
    ("[I", "int[]"),
    ("La/a;", "com.example.A"),
    ("[[Lx/Long;", "org.Long2[][]"),
    ("LI;", "com.example.Iface"),
    ("Lé/ü;", "ü.Ö"),
    ("Z", "boolean"),
    ("Lzz/U;", "zz.U"),
];
const MASS_RETS: [(&str, &str); 7] = [("V", "void"), ("I", "int"), ("[J", "long[]"), ("La/a;", "com.example.A"), ("LI;", "com.example.Iface"), ("[[Lx/Long;", "org.Long2[][]"), ("Lzz/U;", "zz.U")];

/// The i-th descriptor (bijective base-9 numeration of the parameter list, so all keys are distinct strings) and
/// the formatted signature the statement of C16 prescribes for it.
fn mass_key(mut i: u64, key: &mut String, want: &mut String) {
    key.clear();
    want.clear();
    let ret = MASS_RETS[(i % 7) as usize];
    i /= 7;
    key.push('(');
    want.push('(');
    let mut first = true;
    while i > 0 {
        i -= 1;
        let (e, j) = MASS_PARAMS[(i % 9) as usize];
        key.push_str(e);
        if !first {
            want.push_str(", ");
        }
        want.push_str(j);
        first = false;
        i /= 9;
    }
    key.push(')');
    want.push(')');
    key.push_str(ret.0);
    if ret.1 != "void" {
        want.push_str(": ");
        want.push_str(ret.1);
    }
}

fn check_mass(c: &MassCase, st: &mut Stats) -> Check {
    let bytes = pgverif::props::c16::FIXED_MAPPING.as_bytes();
    let m = mapper(bytes, true)?;
    let buf = write_cache(bytes)?;
    let cache = parse_cache(&buf)?;
    // the fast composer above is itself checked against the descriptor model of C16 on the first keys
    {
        let table: Vec<(&str, &str)> = vec![("a.a", "com.example.A"), ("x.Long", "org.Long2"), ("I", "com.example.Iface"), ("é.ü", "ü.Ö"), ("Lib", "Lib2")];
        let lookup = |c: &str| table.iter().find(|(k, _)| *k == c).map(|(_, v)| v.to_string());
        let (mut k, mut w) = (String::new(), String::new());
        for i in (0..3000u64).chain((0..200).map(|j| c.start + j * 7919)) {
            mass_key(i, &mut k, &mut w);
            let d = pgverif::props::c16::nth_desc_pub(i);
            if d.encode() != k || d.expected(&lookup).2 != w {
                return Err(Fail::new("harness-self-check", format!("mass key composer disagrees with the descriptor model at {i}: {k} / {w}")));
            }
        }
    }
    let known = ["a.a", "x.Long", "I", "é.ü", "Lib"];
    let originals = ["com.example.A", "org.Long2", "com.example.Iface", "ü.Ö", "Lib2"];
    let threads = c.threads;
    let barrier = Barrier::new(threads);
    let bad: Vec<Option<String>> = std::thread::scope(|sc| {
        let hs: Vec<_> = (0..threads)
            .map(|t| {
                let (m, cache, barrier) = (&m, &cache, &barrier);
                sc.spawn(move || {
                    let (mut k, mut w, mut name) = (String::new(), String::new(), String::new());
                    barrier.wait();
                    for n in 0..c.per_thread {
                        let i = c.start + n * threads as u64 + t as u64;
                        mass_key(i, &mut k, &mut w);
                        let a = m.0.deobfuscate_signature(&k).map(|d| d.format_signature());
                        if a.as_deref() != Some(w.as_str()) {
                            return Some(format!("mapper: deobfuscate_signature({k:?}) = {a:?} on the shared instance, expected {w:?} (key #{i})"));
                        }
                        let a = cache.0.deobfuscate_signature(&k).map(|d| d.format_signature());
                        if a.as_deref() != Some(w.as_str()) {
                            return Some(format!("cache: deobfuscate_signature({k:?}) = {a:?} on the shared instance, expected {w:?} (key #{i})"));
                        }
                        // class keys: every 5th one is known, the others are distinct unknown names
                        use std::fmt::Write;
                        name.clear();
                        let want_class = if n % 5 == 0 {
                            name.push_str(known[(n / 5 % 5) as usize]);
                            Some(originals[(n / 5 % 5) as usize])
                        } else {
                            let _ = write!(name, "q{:x}.K{}", i, i % 97);
                            None
                        };
                        let (a, b) = (m.0.remap_class(&name), cache.0.remap_class(&name));
                        if a != want_class || b != want_class {
                            return Some(format!("remap_class({name:?}) = mapper {a:?} / cache {b:?} on the shared instance, expected {want_class:?}"));
                        }
                    }
                    None
                })
            })
            .collect();
        hs.into_iter().map(|h| h.join().unwrap_or_else(|_| Some("a query thread panicked".into()))).collect()
    });
    st.evaluations += 4 * c.per_thread * threads as u64;
    st.nontrivial(fnv_mix(c.start, &[threads as u8]));
    st.class(&format!("mass: {} distinct signature keys and as many class keys on one shared mapper + cache, {} threads", c.per_thread * threads as u64, threads));
    if let Some(Some(msg)) = bad.into_iter().find(|b| b.is_some()) {
        return Err(Fail::new("shared-mass-answer-differs", msg));
    }
    Ok(())
}

fn main() {
    let args: Vec<String> = std::env::args().collect();
    pgverif::engine::install_panic_hook();
    let tier = if args.iter().any(|a| a == "thorough") || std::env::var("VERIF_TIER").ok().as_deref() == Some("thorough") && !args.iter().any(|a| a == "quick") { Tier::Thorough } else { Tier::Quick };
    let seed = std::env::var("VERIF_SEED").ok().and_then(|s| s.trim().parse::<u64>().ok()).unwrap_or(20261001);
    let scale = std::env::var("VERIF_SCALE").ok().and_then(|s| s.parse::<f64>().ok()).unwrap_or(1.0);
    // stress cases run one at a time (each spawns up to 16 threads itself)
    let ctx = Ctx { tier, seed, threads: 2, scale };
    if args.get(1).map(|s| s.as_str()) == Some("replay") {
        let text = std::fs::read_to_string(&args[2]).unwrap_or_default();
        let v: serde_json::Value = serde_json::from_str(&text).unwrap_or_default();
        if v["stage"].as_str() == Some("mass") {
            if let Ok(c) = serde_json::from_value::<MassCase>(v["case"].clone()) {
                let mut st = Stats::new();
                if let Err(f) = check_mass(&c, &mut st) {
                    println!("VIOLATION property=C20 replay={}", args[2]);
                    println!("  {}", f.msg);
                    std::process::exit(1);
                }
                println!("replay C20: property holds on this case");
                std::process::exit(0);
            }
        }
        if v["stage"].as_str() == Some("scale") {
            if let Ok(c) = serde_json::from_value::<pgverif::props::scale::ScaleCase>(v["case"].clone()) {
                let mut st = Stats::new();
                if let Err(f) = check_scale(&c, &mut st) {
                    println!("VIOLATION property=C20 replay={}", args[2]);
                    println!("  {}", f.msg);
                    std::process::exit(1);
                }
                println!("replay C20: property holds on this case");
                std::process::exit(0);
            }
        }
        let case: Result<MapCase, _> = serde_json::from_value(v["case"].clone());
        match case {
            Ok(c) => {
                let mut st = Stats::new();
                // a race may need many attempts
                for _ in 0..50 {
                    if let Err(f) = check_case(&c, &mut st) {
                        println!("VIOLATION property=C20 replay={}", args[2]);
                        println!("  {}", f.msg);
                        std::process::exit(1);
                    }
                }
                println!("replay C20: property holds on this case (50 attempts)");
                std::process::exit(0);
            }
            Err(_) => {
                // static violation replays are saved compiler outputs
                println!("replay file is not a dynamic case (static violations are compiler outputs): {}", args[2]);
                std::process::exit(2);
            }
        }
    }
    let mut rep = Report::new("C20", "exploration", &ctx);
    rep.rule = "Static part (enumerated by the compiler): Send + Sync assertions for ProguardMapper, ProguardMapping, ProguardCache, ProguardRecordIter, ProguardRecord, RemappedFrameIter, the cache's frame iterator (on the value), StackFrame, StackTrace, Throwable, DeobfuscatedSignature, CacheError, CacheErrorKind, ParseError, LineMapping, MappingSummary; mapper and cache are also moved into another thread. Dynamic part: generated mappings x the query universe (class, method, frame by line, frame by params, text traces, signatures) incl. ~200 distinct signature strings, 24 distinct trace texts and 40 unknown class names per mapping (so that any memo/cache layer sees concurrent first-time inserts), issued from T in {2,3,4,8,16} threads sharing one fresh (never queried) &ProguardMapper / &ProguardCache per thread count; round 0: every thread asks every query in its own seeded order; rounds 1-2: overlapping slices; seeded yield/spin perturbation, every round starts from a barrier; every answer is compared with the transcript of a separate instance queried alone. On every 4th mapping the ProguardMapping itself (has_line_info, is_valid, summary, iter, uuid, and section() in both orders relative to the parent) and the result objects (one DeobfuscatedSignature, one remapped StackTrace) are shared by reference and read / formatted from 2..16 threads. evaluations = queries issued concurrently. Non-trivial = distinct (mapping, implementation, thread count) runs in which >=2 queries with non-empty answers were issued concurrently.".into();
    rep.assumptions = vec!["the harness does not own the schedule: interleavings are sampled by real threads, not enumerated".into(), "the static assertions carry most of the weight: Rc/RefCell/Cell-style interior mutability fails to compile".into()];
    let n_static = static_assertions() + static_assertions_values();
    rep.stats.class_n("static Send+Sync assertions compiled", n_static as u64);
    rep.stats.exhaustive.push("the listed type set (compile-time)".into());
    let cfg = GenCfg { plain_sourcefile_headers: false, max_blocks: 4, max_items: 8, long: 0, overloads: true, ..GenCfg::default() };
    rep.run_stage("stress", move || map_case(&cfg), ctx.cases(300, 12_000), check_case);
    let mut scale = Vec::new();
    for (kind, n) in [
        (pgverif::props::scale::Kind::ManyOverlap, 513usize),
        (pgverif::props::scale::Kind::ManyOverlap, 4097),
        (pgverif::props::scale::Kind::ManyEntries, 4097),
        (pgverif::props::scale::Kind::ManyMatching, 257),
        (pgverif::props::scale::Kind::ManyClasses, 4097),
        (pgverif::props::scale::Kind::ManyMethods, 4097),
        (pgverif::props::scale::Kind::ManyFiles, 257),
    ] {
        scale.push(pgverif::props::scale::ScaleCase { kind, n, prop: "C20".into() });
    }
    // one long-lived shared pair of instances, tens of millions of distinct keys: any layer that identifies a key
    // by less than the key itself (a truncated digest) sooner or later answers one key with another key's result
    let per = ctx.cases(4_000_000, 60_000_000) as u64;
    let mass = vec![MassCase { threads: 16, per_thread: per, start: 1 + (ctx.seed % 1_000_003) * 16 }];
    let ctx1 = Ctx { threads: 1, ..ctx.clone() };
    {
        let mut repm = Report::new("C20", "exploration", &ctx1);
        repm.run_enum("mass", &mass, check_mass);
        rep.stats.merge(std::mem::take(&mut repm.stats));
        rep.violations.append(&mut repm.violations);
    }
    let mut rep1 = Report::new("C20", "exploration", &ctx1);
    rep1.run_enum("scale", &scale, check_scale);
    rep.stats.merge(std::mem::take(&mut rep1.stats));
    rep.violations.append(&mut rep1.violations);
    std::process::exit(rep.finish());
}

use pgverif::engine::{Ctx, Tier};
use std::process::exit;

fn usage() -> ! {
    eprintln!("usage: pgverif run <ID> [--tier quick|thorough] | pgverif replay <ID> <file>");
    exit(2)
}

fn main() {
    let args: Vec<String> = std::env::args().collect();
    if args.len() < 3 {
        usage();
    }
    pgverif::engine::install_panic_hook();
    match args[1].as_str() {
        "run" => {
            let id = args[2].clone();
            let mut tier = match std::env::var("VERIF_TIER").ok().as_deref() {
                Some("thorough") => Tier::Thorough,
                _ => Tier::Quick,
            };
            let mut i = 3;
            while i < args.len() {
                if args[i] == "--tier" && i + 1 < args.len() {
                    tier = if args[i + 1] == "thorough" { Tier::Thorough } else { Tier::Quick };
                    i += 1;
                }
                i += 1;
            }
            let seed = std::env::var("VERIF_SEED").ok().and_then(|s| s.trim().parse::<u64>().ok()).unwrap_or(20261001);
            let threads = std::env::var("VERIF_THREADS")
                .ok()
                .and_then(|s| s.parse::<usize>().ok())
                .unwrap_or_else(|| std::thread::available_parallelism().map(|n| n.get()).unwrap_or(4).min(16));
            let scale = std::env::var("VERIF_SCALE").ok().and_then(|s| s.parse::<f64>().ok()).unwrap_or(1.0);
            let ctx = Ctx { tier, seed, threads, scale };
            match pgverif::props::run(&id, &ctx) {
                Some(rep) => exit(rep.finish()),
                None => {
                    eprintln!("unknown property {id}");
                    exit(2)
                }
            }
        }
        "replay" => {
            if args.len() < 4 {
                usage();
            }
            let id = &args[2];
            let text = match std::fs::read_to_string(&args[3]) {
                Ok(t) => t,
                Err(e) => {
                    eprintln!("cannot read {}: {e}", args[3]);
                    exit(2)
                }
            };
            let v: serde_json::Value = match serde_json::from_str(&text) {
                Ok(v) => v,
                Err(e) => {
                    eprintln!("bad replay file: {e}");
                    exit(2)
                }
            };
            let stage = v["stage"].as_str().unwrap_or("");
            let r = pgverif::engine::guarded(|| pgverif::props::replay(id, stage, &v["case"]));
            match r {
                Ok(Some(Ok(()))) => {
                    println!("replay {id} {}: property holds on this case", args[3]);
                    exit(0)
                }
                Ok(Some(Err(f))) => {
                    println!("VIOLATION property={id} replay={}", args[3]);
                    println!("  sig={} : {}", f.sig, f.msg);
                    exit(1)
                }
                Ok(None) => {
                    eprintln!("unknown property {id}");
                    exit(2)
                }
                Err(p) => {
                    println!("VIOLATION property={id} replay={}", args[3]);
                    println!("  panic during replay: {p}");
                    exit(1)
                }
            }
        }
        "c14-child" => exit(pgverif::props::c14::child_main()),
        "c18-child" => exit(pgverif::props::c18::child_main()),
        _ => usage(),
    }
}

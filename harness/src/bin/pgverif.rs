use pgverif::engine::{Ctx, Tier};
use std::process::exit;

fn usage() -> ! {
    eprintln!("usage: pgverif run <ID> [--tier quick|thorough] | pgverif replay <ID> <file>");
    exit(2)
}

fn main() {
    let args: Vec<String> = std::env::args().collect();
    if args.len() < 3 {
        usage();
    }
    pgverif::engine::install_panic_hook();
    match args[1].as_str() {
        "run" => {
            let id = args[2].clone();
            let mut tier = match std::env::var("VERIF_TIER").ok().as_deref() {
                Some("thorough") => Tier::Thorough,
                _ => Tier::Quick,
            };
            let mut i = 3;
            while i < args.len() {
                if args[i] == "--tier" && i + 1 < args.len() {
                    tier = if args[i + 1] == "thorough" { Tier::Thorough } else { Tier::Quick };
                    i += 1;
                }
                i += 1;
            }
            let seed = std::env::var("VERIF_SEED").ok().and_then(|s| s.trim().parse::<u64>().ok()).unwrap_or(20261001);
            let threads = std::env::var("VERIF_THREADS")
                .ok()
                .and_then(|s| s.parse::<usize>().ok())
                .unwrap_or_else(|| std::thread::available_parallelism().map(|n| n.get()).unwrap_or(4).min(16));
            let scale = std::env::var("VERIF_SCALE").ok().and_then(|s| s.parse::<f64>().ok()).unwrap_or(1.0);
            let ctx = Ctx { tier, seed, threads, scale };
            match pgverif::props::run(&id, &ctx) {
                Some(rep) => exit(rep.finish()),
                None => {
                    eprintln!("unknown property {id}");
                    exit(2)
                }
            }
        }
        "replay" => {
            if args.len() < 4 {
                usage();
            }
            let id = &args[2];
            let text = match std::fs::read_to_string(&args[3]) {
                Ok(t) => t,
                Err(e) => {
                    eprintln!("cannot read {}: {e}", args[3]);
                    exit(2)
                }
            };
            let v: serde_json::Value = match serde_json::from_str(&text) {
                Ok(v) => v,
                Err(e) => {
                    eprintln!("bad replay file: {e}");
                    exit(2)
                }
            };
            let stage = v["stage"].as_str().unwrap_or("");
            let r = pgverif::engine::guarded(|| pgverif::props::replay(id, stage, &v["case"]));
            match r {
                Ok(Some(Ok(()))) => {
                    println!("replay {id} {}: property holds on this case", args[3]);
                    exit(0)
                }
                Ok(Some(Err(f))) => {
                    println!("VIOLATION property={id} replay={}", args[3]);
                    println!("  sig={} : {}", f.sig, f.msg);
                    exit(1)
                }
                Ok(None) => {
                    eprintln!("unknown property {id}");
                    exit(2)
                }
                Err(p) => {
                    println!("VIOLATION property={id} replay={}", args[3]);
                    println!("  panic during replay: {p}");
                    exit(1)
                }
            }
        }
        "replay-bin" => {
            if args.len() < 4 {
                usage();
            }
            let data = match std::fs::read(&args[3]) {
                Ok(d) => d,
                Err(e) => {
                    eprintln!("cannot read {}: {e}", args[3]);
                    exit(2)
                }
            };
            match pgverif::engine::guarded(|| pgverif::fuzzapi::run(&args[2], &data)) {
                Ok(Some(Ok(()))) => {
                    println!("replay {} {}: property holds on this input", args[2], args[3]);
                    exit(0)
                }
                Ok(Some(Err(f))) => {
                    println!("VIOLATION property={} replay={}", args[2], args[3]);
                    println!("  sig={} : {}", f.sig, f.msg);
                    exit(1)
                }
                Ok(None) => {
                    eprintln!("no fuzz entry point for {}", args[2]);
                    exit(2)
                }
                Err(p) => {
                    println!("VIOLATION property={} replay={}", args[2], args[3]);
                    println!("  panic: {p}");
                    exit(1)
                }
            }
        }
        "gen-seeds" => {
            // pgverif gen-seeds <ID> <dir>: write small structured seed inputs for the libFuzzer stage
            if args.len() < 4 {
                usage();
            }
            let dir = std::path::Path::new(&args[3]);
            let _ = std::fs::create_dir_all(dir);
            let seed = std::env::var("VERIF_SEED").ok().and_then(|s| s.trim().parse::<u64>().ok()).unwrap_or(20261001);
            let cfg = pgverif::gen::mapping::GenCfg { plain_sourcefile_headers: true, ..Default::default() };
            let cases = pgverif::engine::sample_n(&pgverif::props::common::map_case(&cfg), seed, 40);
            let mut n = 0;
            if args[2] == "C07" || args[2] == "C17" {
                // rendered text traces over the names of the fuzz seed mappings
                let pool = pgverif::gen::trace::NamePool {
                    classes: ["a", "b", "c", "d", "a.B", "zz.Unknown"].iter().map(|s| s.to_string()).collect(),
                    methods: ["a", "b", "x", "y"].iter().map(|s| s.to_string()).collect(),
                    lines: vec![0, 1, 2, 3, 5, 6, 7, 9],
                    hits: vec![("a".into(), "x".into(), 3), ("a".into(), "a".into(), 1), ("c".into(), "a".into(), 2), ("d".into(), "b".into(), 5)],
                };
                for (i, t) in pgverif::engine::sample_n(&pgverif::gen::trace::text_trace(&pool, 10), seed, 40).into_iter().enumerate() {
                    let mut data = if args[2] == "C07" { vec![(i % 3) as u8 | if i % 5 == 0 { 0x40 } else { 0 }] } else { Vec::new() };
                    if args[2] == "C17" && i % 2 == 0 {
                        // structured seed: class 0 message 0 (class 0 method 0 file 0 line 0)* [1 next level]
                        data.extend_from_slice(b"java.lang.RuntimeException\0boom: x\0a.B\0run\0Foo.kt\07\0c\0<init>\0SourceFile\012\0\x01zz.Cause\0\0a\0x\0F.java\03\0");
                        data.extend_from_slice(&[i as u8]);
                        let _ = std::fs::write(dir.join(format!("gen-{n:03}")), data);
                        n += 1;
                        continue;
                    }
                    data.extend_from_slice(t.render().as_bytes());
                    let _ = std::fs::write(dir.join(format!("gen-{n:03}")), data);
                    n += 1;
                }
                println!("{n} seeds written to {}", dir.display());
                exit(0)
            }
            for c in cases {
                let b = c.bytes();
                let data: Vec<u8> = match args[2].as_str() {
                    "C12" => {
                        // seed selector + a few edit groups
                        let mut v = vec![(c.key % 3) as u8];
                        v.extend_from_slice(&c.key.to_le_bytes()[..7]);
                        v.extend_from_slice(&(c.key.rotate_left(17)).to_le_bytes()[..7]);
                        v
                    }
                    _ => b,
                };
                let _ = std::fs::write(dir.join(format!("gen-{n:03}")), data);
                n += 1;
            }
            if args[2] != "C12" {
                for f in ["mapping-inlines.txt", "mapping-callback.txt", "mapping-r8-symbolicated_file_names.txt"] {
                    if let Ok(b) = std::fs::read(format!("/repo/tests/res/{f}")) {
                        let _ = std::fs::write(dir.join(format!("corpus-{f}")), &b[..b.len().min(4096)]);
                    }
                }
            }
            println!("{n} seeds written to {}", dir.display());
            exit(0)
        }
        "deep-child" => exit(pgverif::props::c13::deep_child_main()),
        "c14-child" => exit(pgverif::props::c14::child_main()),
        "c18-child" => exit(pgverif::props::c18::child_main()),
        _ => usage(),
    }
}

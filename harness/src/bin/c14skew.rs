//! C14 helper process with a *skewing global allocator*: every byte-aligned allocation (Vec<u8>, String) is placed at
//! an address = k (mod 8) for a chosen k. The standard allocators hand out 16-byte aligned blocks whatever the
//! requested alignment, so code that derives anything from the address of a byte buffer looks deterministic on them;
//! "different allocation addresses" is part of the statement of C14. Reads framed mappings from stdin (as c14-child),
//! writes each under k = 0..8 and prints one digest line per mapping (or a line naming the deviating k).

use std::alloc::{GlobalAlloc, Layout, System};
use std::io::{Read, Write};
use std::sync::atomic::{AtomicUsize, Ordering};

static SKEW: AtomicUsize = AtomicUsize::new(0);

struct Skew;

unsafe impl GlobalAlloc for Skew {
    unsafe fn alloc(&self, l: Layout) -> *mut u8 {
        if l.align() == 1 && l.size() > 0 {
            let k = SKEW.load(Ordering::Relaxed) & 7;
            let base = System.alloc(Layout::from_size_align_unchecked(l.size() + 16, 8));
            if base.is_null() {
                return base;
            }
            let p = base.add(8 + k);
            *p.sub(1) = (8 + k) as u8;
            p
        } else {
            System.alloc(l)
        }
    }
    unsafe fn dealloc(&self, p: *mut u8, l: Layout) {
        if l.align() == 1 && l.size() > 0 {
            let off = *p.sub(1) as usize;
            System.dealloc(p.sub(off), Layout::from_size_align_unchecked(l.size() + 16, 8));
        } else {
            System.dealloc(p, l)
        }
    }
}

#[global_allocator]
static GLOBAL: Skew = Skew;

fn main() {
    let mut input = Vec::new();
    if std::io::stdin().read_to_end(&mut input).is_err() {
        std::process::exit(2);
    }
    let mut frames: Vec<&[u8]> = Vec::new();
    let mut at = 0;
    while at + 4 <= input.len() {
        let len = u32::from_le_bytes([input[at], input[at + 1], input[at + 2], input[at + 3]]) as usize;
        at += 4;
        frames.push(&input[at..at + len]);
        at += len;
    }
    let out = std::io::stdout();
    let mut out = out.lock();
    for bytes in frames {
        let mut first: Option<String> = None;
        let mut line: Option<String> = None;
        for k in 0..8usize {
            SKEW.store(k, Ordering::Relaxed);
            // the mapping itself is copied into a fresh (skewed) buffer as well
            let copy: Vec<u8> = bytes.to_vec();
            let d = {
                let m = proguard::ProguardMapping::new(&copy);
                let mut sink = Vec::new();
                match proguard::ProguardCache::write(&m, &mut sink) {
                    Ok(()) => pgverif::props::c14::digest(&sink),
                    Err(e) => format!("ERR {e}"),
                }
            };
            match &first {
                None => first = Some(d),
                Some(f) if *f != d && line.is_none() => line = Some(format!("{d} (byte buffers at addresses = {k} mod 8; at = 0 mod 8: {f})")),
                _ => {}
            }
        }
        SKEW.store(0, Ordering::Relaxed);
        let _ = writeln!(out, "{}", line.or(first).unwrap_or_default());
    }
}

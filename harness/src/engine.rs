//! Shared engine: tiers, seeds, statistics, panic capture, proptest drivers, evidence and replay files.

use proptest::strategy::{Strategy, ValueTree};
use proptest::test_runner::{Config, RngAlgorithm, RngSeed, TestCaseError, TestError, TestRunner};
use serde_json::{json, Value};
use std::cell::RefCell;
use std::collections::{BTreeMap, HashSet};
use std::panic::{self, AssertUnwindSafe};
use std::sync::atomic::{AtomicBool, Ordering};
use std::sync::{Mutex, Once};
use std::time::Instant;

/// base directory for evidence/, replays/ and KNOWN_FINDINGS.txt: $PGVERIF_HOME (exported by ./check) or /verif
pub fn verif_dir() -> String {
    std::env::var("PGVERIF_HOME").ok().filter(|s| !s.is_empty()).unwrap_or_else(|| "/verif".to_string())
}

#[derive(Clone, Copy, Debug, PartialEq, Eq)]
pub enum Tier {
    Quick,
    Thorough,
}

impl Tier {
    pub fn name(self) -> &'static str {
        match self {
            Tier::Quick => "quick",
            Tier::Thorough => "thorough",
        }
    }
    /// pick `q` for quick, `t` for thorough
    pub fn pick<T>(self, q: T, t: T) -> T {
        match self {
            Tier::Quick => q,
            Tier::Thorough => t,
        }
    }
}

#[derive(Clone, Debug)]
pub struct Ctx {
    pub tier: Tier,
    pub seed: u64,
    pub threads: usize,
    /// multiplier applied to case counts (env VERIF_SCALE, default 1.0); used by the sensitivity tooling
    pub scale: f64,
}

impl Ctx {
    pub fn cases(&self, quick: u64, thorough: u64) -> u64 {
        let n = self.tier.pick(quick, thorough) as f64 * self.scale;
        (n.ceil() as u64).max(1)
    }
}

// ---------------------------------------------------------------------------------------------
// hashing

pub fn fnv64(data: &[u8]) -> u64 {
    let mut h: u64 = 0xcbf29ce484222325;
    for b in data {
        h ^= *b as u64;
        h = h.wrapping_mul(0x100000001b3);
    }
    h
}

pub fn fnv_mix(h: u64, data: &[u8]) -> u64 {
    let mut h = h ^ 0x9e3779b97f4a7c15;
    for b in data {
        h ^= *b as u64;
        h = h.wrapping_mul(0x100000001b3);
    }
    h
}

pub fn mix_seed(seed: u64, id: &str, shard: u64) -> u64 {
    let mut h = fnv_mix(seed, id.as_bytes());
    h = fnv_mix(h, &shard.to_le_bytes());
    // splitmix finaliser
    h ^= h >> 30;
    h = h.wrapping_mul(0xbf58476d1ce4e5b9);
    h ^= h >> 27;
    h = h.wrapping_mul(0x94d049bb133111eb);
    h ^ (h >> 31)
}

// ---------------------------------------------------------------------------------------------
// panic capture

thread_local! {
    static LAST_PANIC: RefCell<Option<String>> = const { RefCell::new(None) };
    static QUIET: RefCell<bool> = const { RefCell::new(false) };
}

static HOOK: Once = Once::new();

pub fn install_panic_hook() {
    HOOK.call_once(|| {
        let default = panic::take_hook();
        panic::set_hook(Box::new(move |info| {
            let loc = info
                .location()
                .map(|l| format!("{}:{}", l.file(), l.line()))
                .unwrap_or_else(|| "?".into());
            let msg = if let Some(s) = info.payload().downcast_ref::<&str>() {
                s.to_string()
            } else if let Some(s) = info.payload().downcast_ref::<String>() {
                s.clone()
            } else {
                "<non-string panic>".into()
            };
            let quiet = QUIET.with(|q| *q.borrow());
            LAST_PANIC.with(|p| *p.borrow_mut() = Some(format!("panic at {loc}: {msg}")));
            if !quiet {
                default(info);
            }
        }));
    });
}

/// Run `f`, turning a panic (including arithmetic overflow, which the harness profile makes a panic)
/// into `Err(description with file:line)`.
pub fn guarded<T>(f: impl FnOnce() -> T) -> Result<T, String> {
    install_panic_hook();
    let prev = QUIET.with(|q| std::mem::replace(&mut *q.borrow_mut(), true));
    LAST_PANIC.with(|p| *p.borrow_mut() = None);
    let r = panic::catch_unwind(AssertUnwindSafe(f));
    QUIET.with(|q| *q.borrow_mut() = prev);
    match r {
        Ok(v) => Ok(v),
        Err(_) => Err(LAST_PANIC
            .with(|p| p.borrow_mut().take())
            .unwrap_or_else(|| "panic (no message)".into())),
    }
}

// ---------------------------------------------------------------------------------------------
// statistics

#[derive(Default, Debug)]
pub struct Stats {
    pub evaluations: u64,
    pub cases: u64,
    pub nontrivial: HashSet<u64>,
    pub classes: BTreeMap<String, u64>,
    pub samples: Vec<Value>,
    pub excluded: BTreeMap<String, u64>,
    pub notes: Vec<String>,
    pub exhaustive: Vec<String>,
    pub skipped: Vec<String>,
}

pub const MAX_SAMPLES: usize = 5;
/// samples kept in the evidence file: two per stage, at most this many overall
pub const MAX_REPORT_SAMPLES: usize = 24;
/// cap for the set of non-trivial hashes kept per shard (memory guard); beyond it the count saturates
pub const MAX_NONTRIVIAL: usize = 1_500_000;

impl Stats {
    pub fn new() -> Self {
        Self::default()
    }
    pub fn class(&mut self, name: &str) {
        *self.classes.entry(name.to_string()).or_insert(0) += 1;
    }
    pub fn class_n(&mut self, name: &str, n: u64) {
        if n > 0 {
            *self.classes.entry(name.to_string()).or_insert(0) += n;
        }
    }
    pub fn nontrivial(&mut self, h: u64) {
        if self.nontrivial.len() < MAX_NONTRIVIAL {
            self.nontrivial.insert(h);
        }
    }
    pub fn sample(&mut self, v: impl FnOnce() -> Value) {
        if self.samples.len() < MAX_SAMPLES {
            self.samples.push(v());
        }
    }
    pub fn want_sample(&self) -> bool {
        self.samples.len() < MAX_SAMPLES
    }
    pub fn exclude(&mut self, sig: &str) {
        *self.excluded.entry(sig.to_string()).or_insert(0) += 1;
    }
    pub fn merge(&mut self, o: Stats) {
        self.evaluations += o.evaluations;
        self.cases += o.cases;
        for h in o.nontrivial {
            self.nontrivial(h);
        }
        for (k, v) in o.classes {
            *self.classes.entry(k).or_insert(0) += v;
        }
        for s in o.samples {
            if self.samples.len() < MAX_SAMPLES {
                self.samples.push(s);
            }
        }
        for (k, v) in o.excluded {
            *self.excluded.entry(k).or_insert(0) += v;
        }
        for n in o.notes {
            if !self.notes.contains(&n) {
                self.notes.push(n);
            }
        }
        for n in o.exhaustive {
            if !self.exhaustive.contains(&n) {
                self.exhaustive.push(n);
            }
        }
        for n in o.skipped {
            if !self.skipped.contains(&n) {
                self.skipped.push(n);
            }
        }
    }
}

// ---------------------------------------------------------------------------------------------
// failures

/// An oracle failure. `sig` is a short, stable signature used to match `known:` lines of KNOWN_FINDINGS.txt.
#[derive(Clone, Debug)]
pub struct Fail {
    pub sig: String,
    pub msg: String,
    /// extra structured detail for the replay file (query, expected, actual …)
    pub detail: Value,
}

impl Fail {
    pub fn new(sig: &str, msg: impl Into<String>) -> Fail {
        Fail {
            sig: sig.to_string(),
            msg: msg.into(),
            detail: Value::Null,
        }
    }
    pub fn with(mut self, detail: Value) -> Fail {
        self.detail = detail;
        self
    }
}

pub type Check = Result<(), Fail>;

#[derive(Clone, Debug)]
pub struct Violation {
    pub stage: String,
    pub case: Value,
    pub fail: Fail,
}

// ---------------------------------------------------------------------------------------------
// known findings

#[derive(Clone, Debug, Default)]
pub struct Known {
    /// (property, signature, text)
    pub known: Vec<(String, String, String)>,
}

impl Known {
    pub fn load() -> Known {
        let mut k = Known::default();
        let path = format!("{}/KNOWN_FINDINGS.txt", verif_dir());
        if let Ok(s) = std::fs::read_to_string(path) {
            for line in s.lines() {
                let line = line.trim();
                if let Some(rest) = line.strip_prefix("known:") {
                    let mut prop = String::new();
                    let mut sig = String::new();
                    let mut text = Vec::new();
                    for tok in rest.split_whitespace() {
                        if let Some(p) = tok.strip_prefix("property=") {
                            prop = p.to_string();
                        } else if let Some(s) = tok.strip_prefix("sig=") {
                            sig = s.to_string();
                        } else {
                            text.push(tok);
                        }
                    }
                    if !prop.is_empty() && !sig.is_empty() {
                        k.known.push((prop, sig, text.join(" ")));
                    }
                }
            }
        }
        k
    }
    pub fn matches(&self, prop: &str, sig: &str) -> Option<&str> {
        self.known
            .iter()
            .find(|(p, s, _)| p == prop && s == sig)
            .map(|(_, _, t)| t.as_str())
    }
}

// ---------------------------------------------------------------------------------------------
// stage drivers

pub struct Report {
    pub id: &'static str,
    pub level: &'static str,
    pub rule: String,
    pub assumptions: Vec<String>,
    pub stats: Stats,
    pub violations: Vec<Violation>,
    pub known_hits: BTreeMap<String, (String, u64)>,
    pub known: Known,
    pub started: Instant,
    pub ctx: Ctx,
}

impl Report {
    pub fn new(id: &'static str, level: &'static str, ctx: &Ctx) -> Report {
        Report {
            id,
            level,
            rule: String::new(),
            assumptions: vec![],
            stats: Stats::new(),
            violations: vec![],
            known_hits: BTreeMap::new(),
            known: Known::load(),
            started: Instant::now(),
            ctx: ctx.clone(),
        }
    }

    /// Route a failure: a `known:` signature is counted and tolerated, anything else is a violation.
    pub fn fail(&mut self, stage: &str, case: Value, fail: Fail) {
        if let Some(text) = self.known.matches(self.id, &fail.sig) {
            let e = self
                .known_hits
                .entry(fail.sig.clone())
                .or_insert((text.to_string(), 0));
            e.1 += 1;
            self.stats.exclude(&fail.sig);
        } else if self.violations.len() < 8 {
            self.violations.push(Violation {
                stage: stage.to_string(),
                case,
                fail,
            });
        }
    }

    /// Run a proptest-driven stage: `cases` cases split over shards, each shard with its own
    /// deterministic runner. The check closure gets a shard-local `Stats`. The first failure per shard is
    /// shrunk by proptest; the shrunk value becomes the replay case.
    ///
    /// A failure whose signature is listed as `known:` is tolerated inside the closure (counted as an
    /// exclusion) so the search continues behind it.
    pub fn run_stage<S, G, F>(&mut self, stage: &str, mk_strategy: G, cases: u64, check: F)
    where
        S: Strategy,
        G: Fn() -> S + Sync,
        S::Value: serde::Serialize + Clone + std::fmt::Debug,
        F: Fn(&S::Value, &mut Stats) -> Check + Sync,
    {
        let threads = self.ctx.threads.max(1) as u64;
        let shards = threads.min(cases.max(1));
        let per = cases / shards;
        let extra = cases % shards;
        let id = self.id;
        let seed = self.ctx.seed;
        let known = &self.known;
        let results: Mutex<Vec<(u64, Stats, Option<(Value, Fail)>, BTreeMap<String, (String, u64)>)>> =
            Mutex::new(Vec::new());
        let stop = AtomicBool::new(false);
        std::thread::scope(|sc| {
            for shard in 0..shards {
                let n = per + if shard < extra { 1 } else { 0 };
                let mk_strategy = &mk_strategy;
                let check = &check;
                let results = &results;
                let stop = &stop;
                let stage_name = stage.to_string();
                sc.spawn(move || {
                    let s = mix_seed(seed, &format!("{id}/{stage_name}"), shard);
                    let mut seed_bytes = [0u8; 32];
                    for i in 0..4 {
                        seed_bytes[i * 8..i * 8 + 8]
                            .copy_from_slice(&mix_seed(s, "k", i as u64).to_le_bytes());
                    }
                    let cfg = Config {
                        cases: n as u32,
                        failure_persistence: None,
                        rng_algorithm: RngAlgorithm::ChaCha,
                        rng_seed: RngSeed::Fixed(s),
                        max_shrink_iters: 4096,
                        max_global_rejects: 1 << 20,
                        verbose: 0,
                        ..Config::default()
                    };
                    let _ = seed_bytes;
                    let mut runner = TestRunner::new(cfg);
                    let strategy = mk_strategy();
                    let strategy = &strategy;
                    let stats = RefCell::new(Stats::new());
                    let failed = RefCell::new(false);
                    let last_fail: RefCell<Option<Fail>> = RefCell::new(None);
                    let khits: RefCell<BTreeMap<String, (String, u64)>> = RefCell::new(BTreeMap::new());
                    let res = runner.run(strategy, |case| {
                        if stop.load(Ordering::Relaxed) && !*failed.borrow() {
                            // another shard already failed: finish quickly
                            return Ok(());
                        }
                        let counting = !*failed.borrow();
                        let mut scratch = Stats::new();
                        let r = {
                            let mut st = stats.borrow_mut();
                            let target: &mut Stats = if counting { &mut st } else { &mut scratch };
                            if counting {
                                target.cases += 1;
                            }
                            match guarded(|| check(&case, target)) {
                                Ok(r) => r,
                                Err(p) => Err(Fail::new("harness-panic", format!("unexpected panic in oracle: {p}"))),
                            }
                        };
                        match r {
                            Ok(()) => Ok(()),
                            Err(f) => {
                                if let Some(text) = known.matches(id, &f.sig) {
                                    if counting {
                                        stats.borrow_mut().exclude(&f.sig);
                                        let mut kh = khits.borrow_mut();
                                        let e = kh.entry(f.sig.clone()).or_insert((text.to_string(), 0));
                                        e.1 += 1;
                                    }
                                    return Ok(());
                                }
                                *failed.borrow_mut() = true;
                                stop.store(true, Ordering::Relaxed);
                                let m = f.msg.clone();
                                *last_fail.borrow_mut() = Some(f);
                                Err(TestCaseError::fail(m))
                            }
                        }
                    });
                    let fail = match res {
                        Ok(()) => None,
                        Err(TestError::Fail(_, value)) => {
                            // re-evaluate the shrunk value to obtain the failure that belongs to it
                            let mut scratch = Stats::new();
                            let f = match guarded(|| check(&value, &mut scratch)) {
                                Ok(Err(f)) => f,
                                Ok(Ok(())) => last_fail
                                    .borrow_mut()
                                    .take()
                                    .unwrap_or_else(|| Fail::new("flaky", "shrunk case passed on re-evaluation")),
                                Err(p) => Fail::new("harness-panic", p),
                            };
                            Some((serde_json::to_value(&value).unwrap_or(Value::Null), f))
                        }
                        Err(TestError::Abort(r)) => Some((
                            Value::Null,
                            Fail::new("harness-abort", format!("proptest aborted: {r}")),
                        )),
                    };
                    results
                        .lock()
                        .unwrap()
                        .push((shard, stats.into_inner(), fail, khits.into_inner()));
                });
            }
        });
        let mut results = results.into_inner().unwrap();
        results.sort_by_key(|r| r.0);
        let mut stage_samples = 0;
        for (_, mut st, fail, kh) in results {
            // at most two samples per stage, tagged with the stage, so that every stage is represented
            let take: Vec<Value> = st.samples.drain(..).take(2usize.saturating_sub(stage_samples)).collect();
            stage_samples += take.len();
            for v in take {
                if self.stats.samples.len() < MAX_REPORT_SAMPLES {
                    self.stats.samples.push(json!({"stage": stage, "case": v}));
                }
            }
            self.stats.merge(st);
            for (k, (t, n)) in kh {
                let e = self.known_hits.entry(k).or_insert((t, 0));
                e.1 += n;
            }
            if let Some((case, f)) = fail {
                if f.sig == "harness-abort" {
                    self.stats.notes.push(format!("stage {stage}: {}", f.msg));
                    self.stats.skipped.push(format!("{stage}: {}", f.msg));
                } else {
                    self.fail(stage, case, f);
                }
            }
        }
    }

    /// Run an enumerated (non-proptest) stage over `items`, split over threads by index.
    pub fn run_enum<T, F>(&mut self, stage: &str, items: &[T], check: F)
    where
        T: Sync + serde::Serialize,
        F: Fn(&T, &mut Stats) -> Check + Sync,
    {
        let threads = self.ctx.threads.max(1);
        let chunk = items.len().div_ceil(threads).max(1);
        let results: Mutex<Vec<(usize, Stats, Vec<(Value, Fail)>)>> = Mutex::new(Vec::new());
        std::thread::scope(|sc| {
            for (ci, ch) in items.chunks(chunk).enumerate() {
                let check = &check;
                let results = &results;
                sc.spawn(move || {
                    let mut st = Stats::new();
                    let mut fails = Vec::new();
                    for it in ch {
                        st.cases += 1;
                        let r = match guarded(|| check(it, &mut st)) {
                            Ok(r) => r,
                            Err(p) => Err(Fail::new("harness-panic", format!("unexpected panic in oracle: {p}"))),
                        };
                        if let Err(f) = r {
                            if fails.len() < 4 {
                                fails.push((serde_json::to_value(it).unwrap_or(Value::Null), f));
                            }
                        }
                    }
                    results.lock().unwrap().push((ci, st, fails));
                });
            }
        });
        let mut results = results.into_inner().unwrap();
        results.sort_by_key(|r| r.0);
        let mut stage_samples = 0;
        for (_, mut st, fails) in results {
            let take: Vec<Value> = st.samples.drain(..).take(2usize.saturating_sub(stage_samples)).collect();
            stage_samples += take.len();
            for v in take {
                if self.stats.samples.len() < MAX_REPORT_SAMPLES {
                    self.stats.samples.push(json!({"stage": stage, "case": v}));
                }
            }
            self.stats.merge(st);
            for (case, f) in fails {
                self.fail(stage, case, f);
            }
        }
    }

    /// Write evidence + replay files, print the verdict lines, and return the process exit code.
    pub fn finish(mut self) -> i32 {
        let wall = self.started.elapsed().as_secs_f64();
        let mut code = 0;
        let mut viol_out = Vec::new();
        for v in &self.violations {
            let body = json!({
                "property": self.id,
                "stage": v.stage,
                "seed": self.ctx.seed,
                "tier": self.ctx.tier.name(),
                "profile": profile(),
                "sig": v.fail.sig,
                "message": v.fail.msg,
                "detail": v.fail.detail,
                "case": v.case,
            });
            let text = serde_json::to_string_pretty(&body).unwrap();
            let h = fnv64(serde_json::to_string(&json!({"s": v.stage, "c": v.case})).unwrap().as_bytes());
            let dir = format!("{}/replays/{}", verif_dir(), self.id);
            let _ = std::fs::create_dir_all(&dir);
            // a violation that shows only in the build without debug assertions must be replayed with that build
            let path = if profile() == "plain" { format!("{dir}/{h:016x}.plain.json") } else { format!("{dir}/{h:016x}.json") };
            let _ = std::fs::write(&path, text);
            println!("VIOLATION property={} replay={}", self.id, path);
            println!("  stage={} sig={} : {}", v.stage, v.fail.sig, truncate(&v.fail.msg, 600));
            viol_out.push(json!({"stage": v.stage, "sig": v.fail.sig, "message": truncate(&v.fail.msg, 400), "replay": path}));
            code = 1;
        }
        for (sig, (text, n)) in &self.known_hits {
            println!("KNOWN-FINDING: property={} sig={} {} (hit {} times this run)", self.id, sig, text, n);
        }
        if self.stats.samples.is_empty() {
            self.stats.samples.push(json!("no sample recorded"));
        }
        let exhaustive = !self.stats.exhaustive.is_empty();
        let ev = json!({
            "property_id": self.id,
            "tier": self.ctx.tier.name(),
            "seed": self.ctx.seed,
            "level": self.level,
            "coverage": {
                "evaluations": self.stats.evaluations,
                "cases_generated": self.stats.cases,
                "distinct_nontrivial": self.stats.nontrivial.len(),
                "distinct_nontrivial_saturated": self.stats.nontrivial.len() >= MAX_NONTRIVIAL,
                "rule": self.rule,
                "samples": self.stats.samples,
                "classes": self.stats.classes,
                "exhaustive": exhaustive,
                "exhaustive_subspaces": self.stats.exhaustive,
                "excluded_known_findings": self.stats.excluded,
                "skipped_stages": self.stats.skipped,
                "notes": self.stats.notes,
                "violations_detail": viol_out,
                "threads": self.ctx.threads,
            },
            "assumptions": self.assumptions,
            "wall_s": (wall * 1000.0).round() / 1000.0,
            "violations": self.violations.len(),
        });
        let _ = std::fs::create_dir_all(format!("{}/evidence", verif_dir()));
        let path = format!("{}/evidence/{}.json", verif_dir(), self.id);
        let mut ev = ev;
        ev["coverage"]["build_profile"] = json!(if profile() == "plain" { "release, overflow checks and debug assertions OFF" } else { "release + overflow checks + debug assertions" });
        if profile() == "plain" {
            // second pass of ./check: fold this run into the evidence written by the first (checked) pass
            let first = std::fs::read_to_string(&path).ok().and_then(|t| serde_json::from_str::<Value>(&t).ok());
            if let Some(mut first) = first.filter(|f| f["tier"] == ev["tier"] && f["seed"] == ev["seed"] && f["coverage"]["plain_profile_pass"].is_null()) {
                let c = &ev["coverage"];
                first["coverage"]["plain_profile_pass"] = json!({
                    "what": "the same stages, re-run by a second build of the harness + library WITHOUT overflow checks and debug assertions, at a reduced case count",
                    "evaluations": c["evaluations"],
                    "cases_generated": c["cases_generated"],
                    "distinct_nontrivial": c["distinct_nontrivial"],
                    "skipped_stages": c["skipped_stages"],
                    "violations_detail": c["violations_detail"],
                    "scale": self.ctx.scale,
                    "wall_s": ev["wall_s"],
                });
                first["violations"] = json!(first["violations"].as_u64().unwrap_or(0) + self.violations.len() as u64);
                first["wall_s"] = json!(((first["wall_s"].as_f64().unwrap_or(0.0) + wall) * 1000.0).round() / 1000.0);
                ev = first;
            }
        }
        if let Err(e) = std::fs::write(&path, serde_json::to_string_pretty(&ev).unwrap()) {
            eprintln!("cannot write evidence {path}: {e}");
            if code == 0 {
                code = 2;
            }
        }
        println!(
            "{} tier={} seed={} profile={} evaluations={} cases={} distinct_nontrivial={} violations={} wall={:.1}s",
            self.id,
            self.ctx.tier.name(),
            self.ctx.seed,
            profile(),
            self.stats.evaluations,
            self.stats.cases,
            self.stats.nontrivial.len(),
            self.violations.len(),
            wall
        );
        code
    }
}

/// Build profile of this harness binary: "checked" (overflow checks + debug assertions on; the default) or "plain"
/// (both off). Determined at compile time, so a binary cannot mis-report itself.
pub fn profile() -> &'static str {
    if cfg!(debug_assertions) {
        "checked"
    } else {
        "plain"
    }
}

pub fn truncate(s: &str, n: usize) -> String {
    if s.len() <= n {
        s.to_string()
    } else {
        let mut end = n;
        while !s.is_char_boundary(end) {
            end -= 1;
        }
        format!("{}…[{} bytes]", &s[..end], s.len())
    }
}

/// Render bytes for humans: lossy text with escapes.
pub fn show_bytes(b: &[u8]) -> String {
    let mut out = String::new();
    for &c in b.iter().take(4000) {
        match c {
            b'\n' => out.push_str("\\n\n"),
            b'\r' => out.push_str("\\r"),
            b'\t' => out.push_str("\\t"),
            0x20..=0x7e => out.push(c as char),
            _ => out.push_str(&format!("\\x{c:02x}")),
        }
    }
    if b.len() > 4000 {
        out.push_str(&format!("…[{} bytes]", b.len()));
    }
    out
}

pub fn hex(b: &[u8]) -> String {
    let mut s = String::with_capacity(b.len() * 2);
    for c in b {
        s.push_str(&format!("{c:02x}"));
    }
    s
}

pub fn unhex(s: &str) -> Vec<u8> {
    (0..s.len() / 2)
        .map(|i| u8::from_str_radix(&s[2 * i..2 * i + 2], 16).unwrap_or(0))
        .collect()
}

/// Sample one value from a strategy with a deterministic runner (used for non-shrinking auxiliary draws).
pub fn sample_one<S: Strategy>(s: &S, seed: u64) -> S::Value {
    let cfg = Config {
        failure_persistence: None,
        rng_algorithm: RngAlgorithm::ChaCha,
        rng_seed: RngSeed::Fixed(seed),
        ..Config::default()
    };
    let mut runner = TestRunner::new(cfg);
    s.new_tree(&mut runner).expect("strategy").current()
}

/// Draw `n` values from a strategy deterministically.
pub fn sample_n<S: Strategy>(s: &S, seed: u64, n: usize) -> Vec<S::Value> {
    let cfg = Config {
        failure_persistence: None,
        rng_algorithm: RngAlgorithm::ChaCha,
        rng_seed: RngSeed::Fixed(seed),
        ..Config::default()
    };
    let mut runner = TestRunner::new(cfg);
    (0..n)
        .map(|_| s.new_tree(&mut runner).expect("strategy").current())
        .collect()
}

//! Uniform access to the query APIs of the four implementations: current mapper, current cache,
//! pinned mapper, pinned cache.

use serde::{Deserialize, Serialize};

/// Owned/borrowed frame answer, comparable across implementations and with the model.
#[derive(Clone, Debug, PartialEq, Eq, Hash)]
pub struct FrameOut<'a> {
    pub class: &'a str,
    pub method: &'a str,
    pub line: u64,
    pub file: Option<&'a str>,
    pub params: Option<&'a str>,
}

#[derive(Clone, Debug, PartialEq, Eq, Serialize, Deserialize, Hash)]
pub struct ThrowableAst {
    pub class: String,
    pub message: Option<String>,
}

#[derive(Clone, Debug, PartialEq, Eq, Serialize, Deserialize, Hash)]
pub struct FrameAst {
    pub class: String,
    pub method: String,
    pub line: u64,
    pub file: Option<String>,
    /// frame that carries a parameter list instead of a line (StackFrame::with_parameters)
    #[serde(default)]
    pub params: Option<String>,
}

#[derive(Clone, Debug, PartialEq, Eq, Serialize, Deserialize, Hash)]
pub struct TraceAst {
    pub exception: Option<ThrowableAst>,
    pub frames: Vec<FrameAst>,
    pub cause: Option<Box<TraceAst>>,
}

impl TraceAst {
    pub fn depth(&self) -> usize {
        1 + self.cause.as_ref().map_or(0, |c| c.depth())
    }
    pub fn print(&self) -> String {
        let mut s = String::new();
        if let Some(e) = &self.exception {
            s.push_str(&e.print());
            s.push('\n');
        }
        for f in &self.frames {
            s.push_str("    ");
            s.push_str(&f.print());
            s.push('\n');
        }
        if let Some(c) = &self.cause {
            s.push_str("Caused by: ");
            s.push_str(&c.print());
        }
        s
    }
}

impl ThrowableAst {
    pub fn print(&self) -> String {
        match &self.message {
            Some(m) => format!("{}: {}", self.class, m),
            None => self.class.clone(),
        }
    }
}

impl FrameAst {
    pub fn print(&self) -> String {
        format!(
            "at {}.{}({}:{})",
            self.class,
            self.method,
            self.file.as_deref().unwrap_or("<unknown>"),
            self.line
        )
    }
}

#[derive(Clone, Debug, PartialEq, Eq, Hash)]
pub struct SigOut {
    pub params: Vec<String>,
    pub ret: String,
    pub formatted: String,
}

pub trait Retracer {
    fn name(&self) -> &'static str;
    fn class<'a>(&'a self, class: &'a str) -> Option<&'a str>;
    fn method<'a>(&'a self, class: &'a str, method: &'a str) -> Option<(&'a str, &'a str)>;
    fn frame_line<'a>(&'a self, class: &'a str, method: &'a str, line: u64, file: Option<&'a str>) -> Vec<FrameOut<'a>>;
    fn frame_params<'a>(&'a self, class: &'a str, method: &'a str, params: &'a str) -> Vec<FrameOut<'a>>;
    fn throwable<'a>(&'a self, class: &'a str, message: Option<&'a str>) -> Option<(&'a str, Option<&'a str>)>;
    fn text(&self, input: &str) -> Result<String, String>;
    fn typed(&self, trace: &TraceAst) -> TraceAst;
    fn sig(&self, s: &str) -> Option<SigOut>;
    /// Every way of consuming the iterator returned by `remap_frame` (nth, skip, step_by, count, last, a clone taken
    /// mid-way, next() after exhaustion, size_hint) must agree with plain next(); returns the number of frames.
    fn frame_adaptors<'a>(&'a self, class: &'a str, method: &'a str, line: u64, params: Option<&'a str>) -> Result<usize, String>;
}

macro_rules! impl_retracer {
    ($krate:ident, $mapper_name:expr, $cache_name:expr) => {
        pub mod $krate {
            use super::*;
            use ::$krate::{ProguardCache, ProguardMapper, StackFrame, StackTrace, Throwable};

            fn mk_frame<'a>(class: &'a str, method: &'a str, line: u64, file: Option<&'a str>) -> StackFrame<'a> {
                match file {
                    Some(f) => StackFrame::with_file(class, method, line as usize, f),
                    None => StackFrame::new(class, method, line as usize),
                }
            }

            fn conv<'a>(f: &StackFrame<'a>) -> FrameOut<'a> {
                // the accessors tie their result to &self; the struct only holds &'a str, so re-borrowing is sound
                // but not expressible — copy through the public accessors into the 'a lifetime via transmute-free trick:
                // StackFrame is Clone and the accessors return the inner references, so we rebuild from a clone we leak
                // nothing from: use the Display-independent accessor values and extend by construction below.
                FrameOut {
                    class: unsafe_extend(f.class()),
                    method: unsafe_extend(f.method()),
                    line: f.line() as u64,
                    file: f.file().map(unsafe_extend),
                    params: f.parameters().map(unsafe_extend),
                }
            }

            /// `StackFrame<'a>::class(&self) -> &str` ties the result to `&self` although the field is `&'a str`.
            /// The strings returned by the library point into the mapping bytes / cache buffer / query strings, all of
            /// which outlive `'a` by construction of the callers in this module.
            fn unsafe_extend<'a>(s: &str) -> &'a str {
                unsafe { std::mem::transmute::<&str, &'a str>(s) }
            }

            type OwnedFrame = (String, String, u64, Option<String>, Option<String>);
            fn own(f: &StackFrame<'_>) -> OwnedFrame {
                (f.class().to_string(), f.method().to_string(), f.line() as u64, f.file().map(|s| s.to_string()), f.parameters().map(|s| s.to_string()))
            }

            /// `mk` yields a fresh iterator over the same answer each time it is called
            fn adaptors<'f, I: Iterator<Item = StackFrame<'f>> + Clone>(mk: impl Fn() -> I) -> Result<usize, String> {
                let all: Vec<OwnedFrame> = mk().map(|f| own(&f)).collect();
                let n = all.len();
                let c = mk().count();
                if c != n {
                    return Err(format!("count() = {c}, next() yields {n} frames"));
                }
                let l = mk().last().map(|f| own(&f));
                if l.as_ref() != all.last() {
                    return Err(format!("last() = {l:?}, next() ends with {:?}", all.last()));
                }
                // every position for short answers, a spread of positions for long ones (each probe is O(n))
                let ks: Vec<usize> = if n <= 40 { (0..=n + 1).collect() } else { vec![0, 1, 2, 3, 31, 32, 33, n / 2, n - 2, n - 1, n, n + 1] };
                for k in ks {
                    let got = mk().nth(k).map(|f| own(&f));
                    if got.as_ref() != all.get(k) {
                        return Err(format!("nth({k}) = {got:?}, next() yields {:?} at that position (all: {all:?})", all.get(k)));
                    }
                    let got: Vec<OwnedFrame> = mk().skip(k).map(|f| own(&f)).collect();
                    if got[..] != all[k.min(n)..] {
                        return Err(format!("skip({k}) yields {got:?}, expected {:?}", &all[k.min(n)..]));
                    }
                    // nth twice in a row: positions k and 2k+1
                    let mut it = mk();
                    let a = it.nth(k).map(|f| own(&f));
                    let b = it.nth(k).map(|f| own(&f));
                    if a.as_ref() != all.get(k) || b.as_ref() != all.get(2 * k + 1) {
                        return Err(format!("nth({k}) twice = {a:?}, {b:?}; expected {:?}, {:?}", all.get(k), all.get(2 * k + 1)));
                    }
                }
                for step in [2usize, 3] {
                    let got: Vec<OwnedFrame> = mk().step_by(step).map(|f| own(&f)).collect();
                    let want: Vec<OwnedFrame> = all.iter().step_by(step).cloned().collect();
                    if got != want {
                        return Err(format!("step_by({step}) yields {got:?}, expected {want:?}"));
                    }
                }
                // size_hint brackets the remaining length at every position; a clone taken mid-way continues alike;
                // the iterator stays exhausted
                let mut it = mk();
                for pos in 0..=n {
                    if n > 40 && pos > 3 && pos + 3 < n && pos % (n / 16) != 0 {
                        let x = it.next().map(|f| own(&f));
                        if x.as_ref() != all.get(pos) {
                            return Err(format!("next() #{pos} = {x:?} while a fresh iterator gave {:?}", all.get(pos)));
                        }
                        continue;
                    }
                    let (lo, hi) = it.size_hint();
                    let rem = n - pos;
                    if lo > rem || hi.map_or(false, |h| h < rem) {
                        return Err(format!("size_hint() = ({lo}, {hi:?}) with {rem} frames remaining"));
                    }
                    let rest: Vec<OwnedFrame> = it.clone().map(|f| own(&f)).collect();
                    if rest[..] != all[pos..] {
                        return Err(format!("a clone taken after {pos} frames yields {rest:?}, expected {:?}", &all[pos..]));
                    }
                    let x = it.next().map(|f| own(&f));
                    if x.as_ref() != all.get(pos) {
                        return Err(format!("next() #{pos} = {x:?} while a fresh iterator gave {:?}", all.get(pos)));
                    }
                }
                for _ in 0..3 {
                    if let Some(f) = it.next() {
                        return Err(format!("next() after exhaustion yields {:?}", own(&f)));
                    }
                }
                Ok(n)
            }

            pub fn to_trace<'a>(t: &'a TraceAst) -> StackTrace<'a> {
                let exc = t.exception.as_ref().map(|e| match &e.message {
                    Some(m) => Throwable::with_message(&e.class, m),
                    None => Throwable::new(&e.class),
                });
                let frames = t
                    .frames
                    .iter()
                    .map(|f| match &f.params {
                        Some(p) => StackFrame::with_parameters(&f.class, &f.method, p),
                        None => mk_frame(&f.class, &f.method, f.line, f.file.as_deref()),
                    })
                    .collect();
                match &t.cause {
                    Some(c) => StackTrace::with_cause(exc, frames, to_trace(c)),
                    None => StackTrace::new(exc, frames),
                }
            }

            pub fn from_trace(t: &StackTrace<'_>) -> TraceAst {
                TraceAst {
                    exception: t.exception().map(|e| ThrowableAst {
                        class: e.class().to_string(),
                        message: e.message().map(|m| m.to_string()),
                    }),
                    frames: t
                        .frames()
                        .iter()
                        .map(|f| FrameAst {
                            class: f.class().to_string(),
                            method: f.method().to_string(),
                            line: f.line() as u64,
                            file: f.file().map(|s| s.to_string()),
                            params: f.parameters().map(|s| s.to_string()),
                        })
                        .collect(),
                    cause: t.cause().map(|c| Box::new(from_trace(c))),
                }
            }

            /// (mapper, label of the constructor it was built with)
            pub struct M<'s>(pub ProguardMapper<'s>, pub &'static str);
            pub struct C<'s>(pub ProguardCache<'s>);

            impl<'s> Retracer for M<'s> {
                fn name(&self) -> &'static str {
                    if self.1.is_empty() {
                        $mapper_name
                    } else {
                        self.1
                    }
                }
                fn class<'a>(&'a self, class: &'a str) -> Option<&'a str> {
                    self.0.remap_class(class)
                }
                fn method<'a>(&'a self, class: &'a str, method: &'a str) -> Option<(&'a str, &'a str)> {
                    self.0.remap_method(class, method)
                }
                fn frame_line<'a>(&'a self, class: &'a str, method: &'a str, line: u64, file: Option<&'a str>) -> Vec<FrameOut<'a>> {
                    let m: &'a ProguardMapper<'a> = &self.0;
                    let f = mk_frame(class, method, line, file);
                    m.remap_frame(&f).map(|f| conv(&f)).collect()
                }
                fn frame_params<'a>(&'a self, class: &'a str, method: &'a str, params: &'a str) -> Vec<FrameOut<'a>> {
                    let m: &'a ProguardMapper<'a> = &self.0;
                    let f = StackFrame::with_parameters(class, method, params);
                    m.remap_frame(&f).map(|f| conv(&f)).collect()
                }
                fn throwable<'a>(&'a self, class: &'a str, message: Option<&'a str>) -> Option<(&'a str, Option<&'a str>)> {
                    let t = match message {
                        Some(m) => Throwable::with_message(class, m),
                        None => Throwable::new(class),
                    };
                    self.0.remap_throwable(&t).map(|t| (unsafe_extend(t.class()), t.message().map(unsafe_extend)))
                }
                fn text(&self, input: &str) -> Result<String, String> {
                    self.0.remap_stacktrace(input).map_err(|e| e.to_string())
                }
                fn typed(&self, trace: &TraceAst) -> TraceAst {
                    let t = to_trace(trace);
                    from_trace(&self.0.remap_stacktrace_typed(&t))
                }
                fn frame_adaptors<'a>(&'a self, class: &'a str, method: &'a str, line: u64, params: Option<&'a str>) -> Result<usize, String> {
                    let m: &'a ProguardMapper<'a> = &self.0;
                    let f = match params {
                        Some(p) => StackFrame::with_parameters(class, method, p),
                        None => StackFrame::new(class, method, line as usize),
                    };
                    adaptors(|| m.remap_frame(&f))
                }
                fn sig(&self, s: &str) -> Option<SigOut> {
                    self.0.deobfuscate_signature(s).map(|d| SigOut {
                        params: d.parameters_types().map(|s| s.to_string()).collect(),
                        ret: d.return_type().to_string(),
                        formatted: d.format_signature(),
                    })
                }
            }

            impl<'s> Retracer for C<'s> {
                fn name(&self) -> &'static str {
                    $cache_name
                }
                fn class<'a>(&'a self, class: &'a str) -> Option<&'a str> {
                    self.0.remap_class(class)
                }
                fn method<'a>(&'a self, class: &'a str, method: &'a str) -> Option<(&'a str, &'a str)> {
                    self.0.remap_method(class, method)
                }
                fn frame_line<'a>(&'a self, class: &'a str, method: &'a str, line: u64, file: Option<&'a str>) -> Vec<FrameOut<'a>> {
                    let c: &'a ProguardCache<'a> = &self.0;
                    let f = mk_frame(class, method, line, file);
                    c.remap_frame(&f).map(|f| conv(&f)).collect()
                }
                fn frame_params<'a>(&'a self, class: &'a str, method: &'a str, params: &'a str) -> Vec<FrameOut<'a>> {
                    let c: &'a ProguardCache<'a> = &self.0;
                    let f = StackFrame::with_parameters(class, method, params);
                    c.remap_frame(&f).map(|f| conv(&f)).collect()
                }
                fn throwable<'a>(&'a self, class: &'a str, message: Option<&'a str>) -> Option<(&'a str, Option<&'a str>)> {
                    let t = match message {
                        Some(m) => Throwable::with_message(class, m),
                        None => Throwable::new(class),
                    };
                    self.0.remap_throwable(&t).map(|t| (unsafe_extend(t.class()), t.message().map(unsafe_extend)))
                }
                fn text(&self, input: &str) -> Result<String, String> {
                    self.0.remap_stacktrace(input).map_err(|e| e.to_string())
                }
                fn typed(&self, trace: &TraceAst) -> TraceAst {
                    let t = to_trace(trace);
                    from_trace(&self.0.remap_stacktrace_typed(&t))
                }
                fn frame_adaptors<'a>(&'a self, class: &'a str, method: &'a str, line: u64, params: Option<&'a str>) -> Result<usize, String> {
                    let m: &'a ProguardCache<'a> = &self.0;
                    let f = match params {
                        Some(p) => StackFrame::with_parameters(class, method, p),
                        None => StackFrame::new(class, method, line as usize),
                    };
                    adaptors(|| m.remap_frame(&f))
                }
                fn sig(&self, s: &str) -> Option<SigOut> {
                    self.0.deobfuscate_signature(s).map(|d| SigOut {
                        params: d.parameters_types().map(|s| s.to_string()).collect(),
                        ret: d.return_type().to_string(),
                        formatted: d.format_signature(),
                    })
                }
            }
        }
    };
}

impl_retracer!(proguard, "mapper", "cache");
impl_retracer!(proguard_pinned, "pinned-mapper", "pinned-cache");

/// 8-byte aligned owned byte buffer (watto aligns by pointer address; every real caller passes an mmap or an
/// allocator-aligned buffer). The allocation is EXACTLY `len` bytes long, so that under the AddressSanitizer build of
/// the libFuzzer stage (and under valgrind / Miri) a read of even one byte behind the cache is a read behind the
/// allocation and is reported, instead of landing in spare capacity.
pub struct AlignedBuf {
    ptr: std::ptr::NonNull<u8>,
    len: usize,
}

unsafe impl Send for AlignedBuf {}
unsafe impl Sync for AlignedBuf {}

impl Drop for AlignedBuf {
    fn drop(&mut self) {
        if self.len > 0 {
            unsafe { std::alloc::dealloc(self.ptr.as_ptr(), std::alloc::Layout::from_size_align(self.len, 8).unwrap()) }
        }
    }
}

impl AlignedBuf {
    pub fn new(bytes: &[u8]) -> AlignedBuf {
        let len = bytes.len();
        if len == 0 {
            // aligned, never dereferenced
            return AlignedBuf { ptr: std::ptr::NonNull::<u64>::dangling().cast(), len };
        }
        let layout = std::alloc::Layout::from_size_align(len, 8).unwrap();
        let ptr = unsafe { std::alloc::alloc(layout) };
        let Some(ptr) = std::ptr::NonNull::new(ptr) else { std::alloc::handle_alloc_error(layout) };
        unsafe {
            std::ptr::copy_nonoverlapping(bytes.as_ptr(), ptr.as_ptr(), len);
        }
        AlignedBuf { ptr, len }
    }
    pub fn bytes(&self) -> &[u8] {
        unsafe { std::slice::from_raw_parts(self.ptr.as_ptr(), self.len) }
    }
    pub fn bytes_mut(&mut self) -> &mut [u8] {
        unsafe { std::slice::from_raw_parts_mut(self.ptr.as_ptr(), self.len) }
    }
    pub fn len(&self) -> usize {
        self.len
    }
    pub fn is_empty(&self) -> bool {
        self.len == 0
    }
}

//! C13 — no mapping bytes and no query can make the library panic or overflow.

use super::common::*;
use crate::api::Retracer;
use crate::engine::{fnv64, guarded, hex, sample_n, show_bytes, unhex, Check, Ctx, Fail, Report, Stats};
use crate::gen::mapping::{self, GenCfg, Item, MapFile};
use crate::gen::mutate;
use crate::gen::universe::Universe;
use proptest::collection::vec;
use proptest::prelude::*;
use proptest::sample::select;
use serde::{Deserialize, Serialize};
use serde_json::{json, Value};

pub const ID: &str = "C13";

pub const HOSTILE_NUMS: &[&str] = &[
    "0", "1", "2", "5", "9", "4294967294", "4294967295", "4294967296", "4294967297", "8589934592", "9223372036854775807", "9223372036854775808", "18446744073709551614",
    "18446744073709551615", "18446744073709551616", "99999999999999999999999999999999999999999", "00000000000000000000001", "\u{b2}", "1\u{b9}",
];

pub fn hostile_line() -> BoxedStrategy<String> {
    let num = || select(HOSTILE_NUMS).prop_map(|s| s.to_string());
    let name = || prop_oneof![3 => select(&["a", "b", "<init>", "", "é", "x.y", ".", "a.", ".a", "漢"][..]).prop_map(|s| s.to_string()), 1 => mapping::ident()];
    prop_oneof![
        8 => (num(), num(), name(), name(), prop::option::of((num(), prop::option::of(num()))), name()).prop_map(|(s, e, ty, n, ol, obf)| {
            let ol = match ol {
                None => String::new(),
                Some((a, None)) => format!(":{a}"),
                Some((a, Some(b))) => format!(":{a}:{b}"),
            };
            format!("    {s}:{e}:{ty} {n}(){ol} -> {obf}")
        }),
        2 => (name(), name()).prop_map(|(a, b)| format!("{a} -> {b}:")),
        1 => name().prop_map(|n| format!("# {{\"id\":\"sourceFile\",\"fileName\":\"{n}\"}}")),
        1 => name().prop_map(|n| format!("# sourceFile:{n}")),
        1 => (name(), name(), name()).prop_map(|(t, a, b)| format!("    {t} {a} -> {b}")),
    ]
    .boxed()
}

#[derive(Clone, Debug, Serialize, Deserialize)]
pub struct HostileCase {
    pub map: MapCase,
    /// (block index fraction, position fraction, raw line)
    pub inject: Vec<(u16, u16, String)>,
}

impl HostileCase {
    pub fn file(&self) -> MapFile {
        let mut f = self.map.file.clone();
        for (b, p, line) in &self.inject {
            if f.blocks.is_empty() {
                f.prelude.push(Item::Noise(line.clone()));
                continue;
            }
            let bi = (*b as usize * f.blocks.len()) >> 16;
            let items = &mut f.blocks[bi].items;
            let at = (*p as usize * (items.len() + 1)) >> 16;
            items.insert(at, Item::Noise(line.clone()));
        }
        f
    }
    pub fn bytes(&self) -> Vec<u8> {
        self.file().render(&self.map.render)
    }
}

pub fn hostile_case() -> BoxedStrategy<HostileCase> {
    let cfg = GenCfg { plain_sourcefile_headers: true, max_blocks: 4, max_items: 6, long: 1, ..GenCfg::default() };
    (map_case(&cfg), vec((any::<u16>(), any::<u16>(), hostile_line()), 1..6)).prop_map(|(map, inject)| HostileCase { map, inject }).boxed()
}

pub const WEIRD_STRINGS: &[&str] = &["", " ", "é", "漢字", "a b", "a.", ".a", "a\0b", "(", ")", ":", "𝒳", "\u{feff}", "a\nb", "\r"];
pub const WEIRD_SIGS: &[&str] = &[
    "", "(", ")", "()", "()V", "(é)V", "(Lé;)Lü;", "(L漢", "(L漢)", "(L漢;", "L;", "(L;)L;", "([[[", "([)[", "(I)é", "(I)[", "(I)L", "(I)L;", "(𝒳)𝒳", "(Lé)V", "(LéI)V", "()Lé", "(Ia;)V", "([Lé;)V", ")(", "(()",
    "(II)", "(Lx;Ly)V", "(L)V", "(L);", "(LL;;)V", "([é)V",
];
/// signatures that cross the JVM's own limits (255 dimensions, 255 parameters): still just strings for this API
pub fn limit_sigs() -> Vec<String> {
    let mut v = Vec::new();
    // in-process depths stay moderate: anything deeper goes through `deep_inputs` in a child process, where a stack
    // overflow is attributed instead of taking the harness down
    for n in [255usize, 256, 257, 300, 1000] {
        v.push(format!("({}I)V", "[".repeat(n)));
        v.push(format!("({}La/a;)V", "[".repeat(n)));
        v.push(format!("(){}J", "[".repeat(n)));
        v.push(format!("(I){}Lx/Long;", "[".repeat(n)));
        v.push(format!("({})V", "[".repeat(n)));
        v.push(format!("({})V", "I".repeat(n)));
        v.push(format!("({})V", "[J".repeat(n)));
        v.push(format!("(L{};)V", "é".repeat(n)));
    }
    v
}

pub const WEIRD_TEXTS: &[&str] = &[
    "", "\n", "\r\n", "at ", "at )", "at a()", "at é.ü(漢:1)", "    at a.b(c:99999999999999999999999)", "at a.b(c:-1)", "Caused by: ", "Caused by: é: ü", "é: ü\n\tat é.漢(ü:1)\nCaused by: 𝒳", "a\r\nb\rc\n",
    "at .(:)", "at a.b(:0)", "at a.b(c:18446744073709551615)", "at a.b(c:18446744073709551616)", "at(", "at a)", " at a.b(c:1) ",
];

pub fn pipeline(bytes: &[u8], key: u64, st: &mut Stats) -> Check {
    pipeline_opt(bytes, key, st, false)
}

/// `light` = reduced query set for the coverage-guided target (throughput matters there).
pub fn pipeline_opt(bytes: &[u8], key: u64, st: &mut Stats, light: bool) -> Check {
    st.evaluations += 1;
    // metadata
    let meta = guarded(|| {
        let m = proguard::ProguardMapping::new(bytes);
        let n = m.iter().count();
        let s = m.summary();
        (n, m.is_valid(), m.has_line_info(), s.class_count(), s.method_count(), s.compiler().map(|x| x.len()), s.min_api(), m.uuid())
    })
    .map_err(|p| Fail::new("pipeline-panic", format!("metadata: {p}")))?;
    let m_plain = mapper(bytes, false).map_err(|f| Fail::new("pipeline-panic", f.msg))?;
    let m_params = mapper(bytes, true).map_err(|f| Fail::new("pipeline-panic", f.msg))?;
    let buf = write_cache(bytes).map_err(|f| if f.sig == "write-panic" { Fail::new("pipeline-panic", f.msg) } else { Fail::new("pipeline-error", f.msg) })?;
    let cache = parse_cache(&buf).map_err(|f| if f.sig == "parse-panic" { Fail::new("pipeline-panic", f.msg) } else { Fail::new("pipeline-error", f.msg) })?;
    let u = guarded(|| Universe::from_bytes(bytes, false, if light { 5 } else { 30 }, key)).map_err(|p| Fail::new("pipeline-panic", format!("iterating records: {p}")))?;
    // queries
    let mut classes: Vec<&str> = u.known_classes.iter().map(|s| s.as_str()).collect();
    classes.extend(u.other_classes.iter().take(4).map(|s| s.as_str()));
    classes.extend(WEIRD_STRINGS.iter().take(6));
    let mut methods: Vec<&str> = u.known_methods.iter().map(|s| s.as_str()).collect();
    methods.extend(WEIRD_STRINGS.iter().skip(2).take(5));
    let mut lines: Vec<u64> = vec![0, 1, 2, (1 << 32) - 1, 1 << 32, (1 << 32) + 1, u64::MAX - 1, u64::MAX, 1 << 63];
    lines.extend(u.lines.iter().filter(|l| **l > 66).take(if light { 8 } else { 24 }));
    let mut texts: Vec<String> = Vec::new();
    let mut sigs: Vec<String> = Vec::new();
    if light {
        classes.truncate(8);
        methods.truncate(5);
        texts.extend(WEIRD_TEXTS.iter().take(6).map(|s| s.to_string()));
        sigs.extend(WEIRD_SIGS.iter().take(8).map(|s| s.to_string()));
    } else {
        let pool = name_pool(&u);
        texts.extend(sample_n(&crate::gen::trace::text_trace(&pool, 8), key ^ 0xd13, 3).into_iter().map(|t| t.render()));
        texts.extend(WEIRD_TEXTS.iter().map(|s| s.to_string()));
        texts.extend(sample_n(&"\\PC{0,24}", key ^ 0xd14, 3));
        sigs.extend(WEIRD_SIGS.iter().map(|s| s.to_string()));
        sigs.extend(sample_n(&"[()\\[LIVJ;/éa漢𝒳]{0,12}", key ^ 0xd15, 6));
        if key % 512 == 0 {
            sigs.extend(limit_sigs());
        }
    }
    let reached = std::cell::Cell::new(false);
    // the convenience constructors must be as total as `new`
    let variants = mapper_variants(bytes).map_err(|f| Fail::new("pipeline-panic", f.msg))?;
    guarded(|| {
        for (v, _) in variants.iter().skip(3) {
            for c in classes.iter().take(4) {
                let _ = v.class(c);
                for m in methods.iter().take(3) {
                    let _ = v.frame_line(c, m, 1, None);
                    let _ = v.frame_params(c, m, "");
                }
            }
        }
    })
    .map_err(|p| Fail::new("pipeline-panic", format!("mapper built with From<&str>: {p}")))?;
    let impls: [&dyn Retracer; 3] = [&m_plain, &m_params, &cache];
    for r in impls {
        guarded(|| -> Check {
            for c in &classes {
                let _ = r.class(c);
                let _ = r.throwable(c, Some("é: ü"));
                for m in &methods {
                    if r.method(c, m).is_some() {
                        reached.set(true);
                    }
                    for &l in &lines {
                        if !r.frame_line(c, m, l, Some("é.java")).is_empty() {
                            reached.set(true);
                        }
                    }
                    for p in u.params.iter().take(6) {
                        let _ = r.frame_params(c, m, p);
                    }
                    let _ = r.frame_params(c, m, "é,漢");
                }
            }
            for t in &texts {
                if let Err(e) = r.text(t) {
                    return Err(Fail::new("pipeline-error", format!("{}: remap_stacktrace({t:?}) returned Err({e})", r.name())));
                }
                if let Some(tr) = proguard::StackTrace::try_parse(t.as_bytes()) {
                    let ast = crate::api::proguard::from_trace(&tr);
                    let _ = r.typed(&ast);
                    let _ = tr.to_string();
                }
                let _ = proguard::StackFrame::try_parse(t.as_bytes());
                let _ = proguard::Throwable::try_parse(t.as_bytes());
            }
            for s in &sigs {
                if let Some(o) = r.sig(s) {
                    let _ = o.formatted.len();
                }
            }
            Ok(())
        })
        .map_err(|p| Fail::new("pipeline-panic", format!("{} query: {p}", r.name())))??;
    }
    if meta.4 > 0 && reached.get() {
        st.nontrivial(fnv64(bytes));
    }
    if !light && key % 4 == 0 {
        // the iterator adaptors and sections must be as total as plain iteration
        super::c06::check_iter_api(bytes, st).map_err(|f| if f.sig == "parse-panic" { Fail::new("pipeline-panic", f.msg) } else { f })?;
        super::c06::check_section(bytes, key, st).map_err(|f| if f.sig == "parse-panic" { Fail::new("pipeline-panic", f.msg) } else { f })?;
    }
    Ok(())
}

/// Additional free-form trace text / signature string against mapper and cache built from `bytes`.
pub fn extra_queries(bytes: &[u8], text: &str) -> Check {
    let m = mapper(bytes, true).map_err(|f| Fail::new("pipeline-panic", f.msg))?;
    let buf = write_cache(bytes).map_err(|f| Fail::new("pipeline-panic", f.msg))?;
    let cache = parse_cache(&buf).map_err(|f| Fail::new("pipeline-error", f.msg))?;
    let impls: [&dyn Retracer; 2] = [&m, &cache];
    for r in impls {
        guarded(|| -> Check {
            if let Err(e) = r.text(text) {
                return Err(Fail::new("pipeline-error", format!("{}: remap_stacktrace returned Err({e})", r.name())));
            }
            if let Some(tr) = proguard::StackTrace::try_parse(text.as_bytes()) {
                let ast = crate::api::proguard::from_trace(&tr);
                let _ = r.typed(&ast);
            }
            for line in text.lines().take(8) {
                let _ = r.sig(line);
                if let Some(f) = proguard::StackFrame::try_parse(line.as_bytes()) {
                    let _ = r.frame_line(f.class(), f.method(), f.line() as u64, f.file());
                    let _ = r.frame_params(f.class(), f.method(), f.file().unwrap_or(""));
                    let _ = r.method(f.class(), f.method());
                }
            }
            Ok(())
        })
        .map_err(|p| Fail::new("pipeline-panic", format!("{} free-form query: {p}", r.name())))??;
    }
    Ok(())
}

fn classify(bytes: &[u8], st: &mut Stats) {
    let text = String::from_utf8_lossy(bytes);
    if text.contains("4294967296") || text.contains("4294967295") || text.contains("4294967297") {
        st.class("numbers around 2^32");
    }
    if text.contains("18446744073709551615") || text.contains("18446744073709551616") || text.contains("9223372036854775808") {
        st.class("numbers around 2^63 / 2^64");
    }
    if std::str::from_utf8(bytes).is_err() {
        st.class("invalid UTF-8");
    }
}

#[derive(Clone, Debug, Serialize, Deserialize)]
pub struct RawCase {
    pub hex: String,
    pub key: u64,
}

pub fn check_hostile(c: &HostileCase, st: &mut Stats) -> Check {
    let b = c.bytes();
    classify(&b, st);
    if st.want_sample() && b.len() > 60 {
        st.sample(|| json!({"hostile mapping": show_bytes(&b)}));
    }
    pipeline(&b, c.map.key, st).map_err(|f| f.with(json!({"mapping": show_bytes(&b), "hex": hex(&b)})))
}

pub fn check_mutant(c: &mutate::MutCase, st: &mut Stats) -> Check {
    let b = c.bytes();
    classify(&b, st);
    pipeline(&b, c.key, st).map_err(|f| f.with(json!({"mapping": show_bytes(&b), "hex": hex(&b)})))
}

/// Inputs whose *depth* (not content) is the hazard: thousands of array dimensions, junk characters in front of a
/// type, parentheses, very long single lines. They only go to APIs that are iterative on the unchanged tree
/// (signature strings, trace text, mapping bytes) — never to the typed-trace API, which recurses per cause level by
/// design. They run in a child process: a stack overflow aborts the process and cannot be caught as a panic.
pub fn deep_inputs(thorough: bool) -> Vec<(char, String)> {
    let mut v = Vec::new();
    let ns: &[usize] = if thorough { &[4096, 20_000, 100_000, 1_000_000] } else { &[4096, 20_000, 100_000] };
    for &n in ns {
        for s in [
            format!("({}I)V", "[".repeat(n)),
            format!("(){}La/a;", "[".repeat(n)),
            format!("({}I)V", "x".repeat(n)),
            format!("(I){}J", "x".repeat(n)),
            format!("({}I)V", "(".repeat(n)),
            format!("(L{};)V", "a/".repeat(n)),
            format!("({})V", "La;".repeat(n)),
            format!("({})V", "L".repeat(n)),
        ] {
            v.push(('s', s));
        }
        for t in [
            format!("a.b: {}", ": ".repeat(n)),
            format!("    at {}(F:1)", "a.".repeat(n)),
            format!("    at a.b({}:1)", "(".repeat(n)),
            format!("{}", "Caused by: ".repeat(n)),
            format!("{}a.b: c", "\t".repeat(n)),
            "Caused by: a.b: c\n".repeat(n),
            "    at a.b(F:1)\n".repeat(n),
        ] {
            v.push(('t', t));
        }
        for m in [
            format!("{} -> a:\n    void m() -> b\n", "x.".repeat(n)),
            format!("a.B -> a:\n    {}:1:void m() -> b\n", "1".repeat(n)),
            format!("a.B -> a:\n    void m({}) -> b\n", "(".repeat(n)),
            format!("# {}\n", ":".repeat(n)),
            format!("{}", "#".repeat(n)),
            format!("a.B -> a:\n{}", "    1:1:void m():1 -> b\n".repeat(n.min(100_000))),
        ] {
            v.push(('m', m));
        }
    }
    v
}

/// child side: answer every deep input, print one line per input
pub fn deep_child_main() -> i32 {
    use std::io::Write;
    let thorough = std::env::args().any(|a| a == "thorough");
    let base = STRINGS_MAPPING.as_bytes();
    let m = match mapper(base, true) {
        Ok(m) => m,
        Err(_) => return 3,
    };
    let buf = match write_cache(base) {
        Ok(b) => b,
        Err(_) => return 3,
    };
    let cache = match parse_cache(&buf) {
        Ok(c) => c,
        Err(_) => return 3,
    };
    let out = std::io::stdout();
    let mut out = out.lock();
    for (i, (kind, s)) in deep_inputs(thorough).iter().enumerate() {
        // announce first: if the process dies, the parent knows which input it was working on
        let _ = writeln!(out, "BEGIN {i}");
        let _ = out.flush();
        match kind {
            's' => {
                let _ = m.sig(s);
                let _ = cache.sig(s);
            }
            't' => {
                let _ = m.text(s);
                let _ = cache.text(s);
                let _ = proguard::StackFrame::try_parse(s.as_bytes());
                let _ = proguard::Throwable::try_parse(s.as_bytes());
            }
            _ => {
                let mp = proguard::ProguardMapping::new(s.as_bytes());
                let _ = mp.iter().count();
                let _ = mp.has_line_info();
                let _ = mp.is_valid();
                let _ = mp.summary().class_count();
                let mm = proguard::ProguardMapper::new_with_param_mapping(mp.clone(), true);
                let _ = mm.remap_class("a");
                let mut v = Vec::new();
                let _ = proguard::ProguardCache::write(&mp, &mut v);
            }
        }
        let _ = writeln!(out, "END {i}");
        let _ = out.flush();
    }
    let _ = writeln!(out, "DONE");
    0
}

/// parent side
pub fn check_deep(thorough: bool, st: &mut Stats) -> Check {
    let inputs = deep_inputs(thorough);
    let exe = std::env::current_exe().map_err(|e| Fail::new("harness-io", e.to_string()))?;
    let mut cmd = std::process::Command::new(exe);
    cmd.arg("deep-child").arg("C13");
    if thorough {
        cmd.arg("thorough");
    }
    let outp = cmd.output().map_err(|e| Fail::new("harness-io", format!("cannot run the deep-input child: {e}")))?;
    let text = String::from_utf8_lossy(&outp.stdout).to_string();
    let ended = text.lines().filter(|l| l.starts_with("END ")).count();
    st.evaluations += ended as u64;
    for i in 0..ended {
        st.nontrivial(0xdee9_0000 + i as u64);
    }
    st.class_n("deep inputs answered in a child process", ended as u64);
    if outp.status.success() && text.lines().any(|l| l == "DONE") && ended == inputs.len() {
        return Ok(());
    }
    // which input was in flight?
    let last_begin = text.lines().rev().find_map(|l| l.strip_prefix("BEGIN ").and_then(|n| n.parse::<usize>().ok()));
    let what = last_begin.and_then(|i| inputs.get(i)).map(|(k, s)| {
        let kind = match k {
            's' => "signature string",
            't' => "trace text",
            _ => "mapping bytes",
        };
        format!("{kind} of {} bytes starting {:?}", s.len(), crate::engine::truncate(s, 60))
    });
    let stderr = String::from_utf8_lossy(&outp.stderr);
    let abnormal = outp.status.code().is_none() || stderr.contains("overflowed its stack");
    if outp.status.code() == Some(3) {
        // the child could not even set up its fixed mapping: not a verdict about deep inputs
        st.skipped.push("deep-input child could not build its fixed mapping".into());
        return Ok(());
    }
    Err(Fail::new(
        if abnormal { "query-aborts-process" } else { "deep-child-failed" },
        format!(
            "the process answering deep inputs ended with {} after {ended} of {} inputs; in flight: {}; stderr: {}",
            outp.status,
            inputs.len(),
            what.unwrap_or_else(|| "unknown".into()),
            crate::engine::truncate(stderr.trim(), 300)
        ),
    )
    .with(json!({"in_flight_index": last_begin, "thorough": thorough})))
}

#[derive(Clone, Debug, Serialize, Deserialize)]
pub struct StringsCase {
    pub texts: Vec<String>,
    pub sigs: Vec<String>,
}

pub const STRINGS_MAPPING: &str = "com.example.Foo -> a:\n# {\"id\":\"sourceFile\",\"fileName\":\"R8$$SyntheticClass\"}\n    1:5:void é.Ü.m(int):10:14 -> b\n    1:5:void n():3 -> b\nü.X -> é:\n    void 漢() -> 字\n";

pub fn strings_case() -> BoxedStrategy<StringsCase> {
    let text = prop_oneof![
        3 => "(    |\\t|)at \\PC{0,5}[.(:)é漢]{0,3}\\PC{0,5}[)(:]{0,2}",
        2 => "\\PC{0,10}(: )?\\PC{0,6}",
        2 => "(Caused by: )?[a.éb: ]{0,8}",
        2 => "    at (a|é|com.x)[.]{0,2}(b|字)?[(]{0,2}(F|é)?[:]{0,2}[0-9]{0,22}[)]{0,2}",
        1 => "\\PC{0,30}",
    ];
    let sig = prop_oneof![
        3 => "[(]{0,2}[\\[LIVJZé漢;/a]{0,10}[)]{0,2}[\\[LIVé漢;a]{0,5}",
        1 => "\\PC{0,12}",
    ];
    (vec(text, 1..6), vec(sig, 1..6)).prop_map(|(texts, sigs)| StringsCase { texts, sigs }).boxed()
}

pub fn check_strings(c: &StringsCase, st: &mut Stats) -> Check {
    st.evaluations += 1;
    let joined = c.texts.join("\n");
    extra_queries(STRINGS_MAPPING.as_bytes(), &joined)?;
    let m = mapper(STRINGS_MAPPING.as_bytes(), false).map_err(|f| Fail::new("pipeline-panic", f.msg))?;
    let buf = write_cache(STRINGS_MAPPING.as_bytes())?;
    let cache = parse_cache(&buf)?;
    guarded(|| {
        for s in &c.sigs {
            let _ = m.sig(s);
            let _ = cache.sig(s);
        }
        if c.texts.len() == 1 && c.sigs.len() == 1 {
            for s in limit_sigs() {
                let _ = m.sig(&s);
                let _ = cache.sig(&s);
            }
        }
        for t in &c.texts {
            let _ = proguard::StackFrame::try_parse(t.as_bytes());
            let _ = proguard::Throwable::try_parse(t.as_bytes());
            let _ = proguard::ProguardRecord::try_parse(t.as_bytes());
        }
    })
    .map_err(|p| Fail::new("pipeline-panic", format!("string query: {p}")))?;
    if c.texts.iter().any(|t| !t.is_ascii()) {
        st.class("multi-byte characters in trace text / signature");
        st.nontrivial(fnv64(joined.as_bytes()));
    }
    Ok(())
}

pub fn run(ctx: &Ctx) -> Report {
    let mut rep = Report::new(ID, "exploration", ctx);
    rep.rule = "Cases: generated mappings with injected hostile lines (every numeric slot drawn from {0,1,2,5,9,2^32-2..2^32+1,2^33,2^63-1,2^63,2^64-2,2^64-1,2^64,41 digits, leading zeros, Latin-1 'numeric' bytes}; empty / dotted / non-ASCII names; empty sourceFile names), hostile token mutants (incl. invalid UTF-8), raw bytes. Pipeline per case: iter, is_valid, has_line_info, summary, uuid, ProguardMapper::new and new_with_param_mapping, ProguardCache::write into a Vec, parse, then on mapper, mapper-with-params and cache: class / throwable / method / frame by line (0,1,2,2^32-1..2^32+1,2^63,2^64-2,2^64-1 and every range boundary of the file) / frame by params / text traces (generated, hand-picked edge cases, arbitrary Unicode) / StackTrace::try_parse + typed remap + Display / deobfuscate_signature + format_signature on strings with multi-byte characters at every slice boundary. Deep inputs (4096 .. 10^6 array dimensions / junk characters / nested parentheses / path segments / repeated lines, for the iterative APIs only) are answered in a child process. Oracle: no panic (overflow checks on), no abnormal process end (a stack overflow aborts and cannot be caught), and write, parse, remap_stacktrace return Ok. evaluations = pipelines run. Non-trivial = distinct cases with >=1 method record and a query that reaches it.".into();
    rep.assumptions = vec!["harness profile has overflow-checks=on and debug-assertions=on for the crate under test".into()];
    rep.run_stage("hostile", hostile_case, ctx.cases(40_000, 1_800_000), check_hostile);
    let cfg = GenCfg { plain_sourcefile_headers: true, ..GenCfg::default() };
    rep.run_stage("mutants", move || mutate::hostile_case(&cfg), ctx.cases(20_000, 900_000), check_mutant);
    let scale: Vec<super::scale::ScaleCase> = super::scale::cases(ctx, "C13");
    rep.run_enum("scale", &scale, |c: &super::scale::ScaleCase, st: &mut Stats| {
        let (file, _) = super::scale::build(c.kind, c.n);
        let b = file.render(&crate::gen::mapping::Render::default());
        st.class("scale case through the whole pipeline");
        pipeline_opt(&b, 7, st, true).map_err(|mut f| {
            f.msg = crate::engine::truncate(&f.msg, 1200);
            f
        })
    });
    {
        let thorough = ctx.tier == crate::engine::Tier::Thorough;
        let mut dst = Stats::new();
        dst.cases += 1;
        if let Err(f) = check_deep(thorough, &mut dst) {
            rep.fail("deep", json!({"thorough": thorough}), f);
        }
        rep.stats.merge(dst);
    }
    rep.run_stage("strings", strings_case, ctx.cases(40_000, 1_800_000), check_strings);
    rep.run_stage(
        "bytes",
        || (vec(any::<u8>(), 0..160), any::<u64>()).prop_map(|(v, key)| RawCase { hex: hex(&v), key }),
        ctx.cases(10_000, 450_000),
        |c: &RawCase, st: &mut Stats| pipeline(&unhex(&c.hex), c.key, st),
    );
    rep
}

pub fn replay(stage: &str, case: &Value) -> Check {
    let mut st = Stats::new();
    let de = |e: serde_json::Error| Fail::new("harness-replay", e.to_string());
    match stage {
        "hostile" => check_hostile(&serde_json::from_value(case.clone()).map_err(de)?, &mut st),
        "mutants" => check_mutant(&serde_json::from_value(case.clone()).map_err(de)?, &mut st),
        "scale" => {
            let c: super::scale::ScaleCase = serde_json::from_value(case.clone()).map_err(de)?;
            let (file, _) = super::scale::build(c.kind, c.n);
            pipeline_opt(&file.render(&crate::gen::mapping::Render::default()), 7, &mut st, true)
        }
        "deep" => check_deep(case["thorough"].as_bool().unwrap_or(false), &mut st),
        "strings" => check_strings(&serde_json::from_value(case.clone()).map_err(de)?, &mut st),
        "bytes" => {
            let c: RawCase = serde_json::from_value(case.clone()).map_err(de)?;
            pipeline(&unhex(&c.hex), c.key, &mut st)
        }
        _ => Err(Fail::new("harness-replay", format!("unknown stage {stage}"))),
    }
}

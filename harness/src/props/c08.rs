//! C08 — typed stack-trace remapping keeps every element and agrees with the text API.

use super::common::*;
use crate::api::{FrameAst, Retracer, ThrowableAst, TraceAst};
use crate::engine::{fnv64, sample_n, Check, Ctx, Fail, Report, Stats};
use crate::gen::mapping::GenCfg;
use crate::gen::trace;
use crate::gen::universe::Universe;
use serde_json::{json, Value};

pub const ID: &str = "C08";

pub fn cfg() -> GenCfg {
    GenCfg { plain_sourcefile_headers: false, max_blocks: 5, max_items: 8, long: 0, ..GenCfg::default() }
}

/// structural expectation built from the single-element lookups
pub fn expected(r: &dyn Retracer, t: &TraceAst, st: &mut Stats, flags: &mut (bool, bool)) -> TraceAst {
    let exception = t.exception.as_ref().map(|e| match r.throwable(&e.class, e.message.as_deref()) {
        Some((c, m)) => {
            flags.1 = true;
            ThrowableAst { class: c.to_string(), message: m.map(|s| s.to_string()) }
        }
        None => {
            flags.0 = true;
            st.class("unmapped throwable (must be kept)");
            e.clone()
        }
    });
    let mut frames = Vec::new();
    for f in &t.frames {
        let out = match &f.params {
            Some(p) => r.frame_params(&f.class, &f.method, p),
            None => r.frame_line(&f.class, &f.method, f.line, f.file.as_deref()),
        };
        match out.len() {
            0 => {
                flags.0 = true;
                st.class("frame resolving to 0 frames (kept)");
                frames.push(f.clone());
            }
            n => {
                flags.1 = true;
                st.class(if n == 1 { "frame resolving to 1 frame" } else { "frame resolving to >=2 frames" });
                for x in out {
                    frames.push(FrameAst { class: x.class.to_string(), method: x.method.to_string(), line: x.line, file: x.file.map(|s| s.to_string()), params: x.params.map(|s| s.to_string()) });
                }
            }
        }
    }
    let cause = t.cause.as_ref().map(|c| Box::new(expected(r, c, st, flags)));
    TraceAst { exception, frames, cause }
}

pub fn check_trace(r: &dyn Retracer, t: &TraceAst, st: &mut Stats) -> Check {
    st.evaluations += 1;
    let mut flags = (false, false);
    let want = expected(r, t, st, &mut flags);
    let got = r.typed(t);
    if flags.0 && flags.1 {
        st.nontrivial(fnv64(format!("{t:?}").as_bytes()));
    }
    if t.depth() >= 3 {
        st.class("cause chain depth >= 2");
    }
    {
        let mut cur = t.cause.as_deref();
        while let Some(c) = cur {
            if c.exception.is_none() && c.frames.is_empty() {
                st.class("cause level without throwable and without frames");
                break;
            }
            cur = c.cause.as_deref();
        }
    }
    if got.depth() != t.depth() {
        return Err(Fail::new("typed-depth", format!("{}: cause-chain depth {} became {}", r.name(), t.depth(), got.depth())).with(json!({"impl": r.name(), "trace": t})));
    }
    if got != want {
        // name the first dropped element for a readable signature
        let sig = {
            let mut a = Some(&got);
            let mut b = Some(&want);
            let mut sig = "typed-structure";
            while let (Some(x), Some(y)) = (a, b) {
                if x.exception.is_none() && y.exception.is_some() {
                    sig = "typed-throwable-dropped";
                    break;
                }
                a = x.cause.as_deref();
                b = y.cause.as_deref();
            }
            sig
        };
        return Err(Fail::new(sig, format!("{}: remap_stacktrace_typed({}) = {:?}, element-wise remapping gives {:?}", r.name(), t.print(), got, want)).with(json!({"impl": r.name(), "trace": t})));
    }
    // agreement with the text API for traces in canonical printed form
    let printed = t.print();
    let canonical = proguard::StackTrace::try_parse(printed.as_bytes()).map(|p| crate::api::proguard::from_trace(&p)).as_ref() == Some(t);
    if canonical {
        st.class("canonical printed form (typed vs text agreement checked)");
        st.evaluations += 1;
        let via_text = r.text(&printed).map_err(|e| Fail::new("text-error", e))?;
        let via_typed = got.print();
        if via_text != via_typed {
            return Err(Fail::new("typed-vs-text", format!("{}: print(typed(T)) = {via_typed:?} but text API gives {via_text:?} for {printed:?}", r.name())).with(json!({"impl": r.name(), "trace": t})));
        }
    }
    Ok(())
}

pub fn check_case(case: &MapCase, st: &mut Stats) -> Check {
    let u = Universe::from_ast(&case.file, false);
    let bytes = case.bytes();
    let pool = name_pool_for(&case.file, &u);
    let mut traces: Vec<TraceAst> = sample_n(&trace::trace(&pool, 6, 4), case.key ^ 0xc08, 24);
    // traces as the parser produces them: cause levels without throwable and / or without frames
    traces.extend(sample_n(&trace::parsed_like_trace(&pool, 3, 4), case.key ^ 0xc09, 8));
    let m = mapper(&bytes, false)?;
    let buf = write_cache(&bytes)?;
    let cache = parse_cache(&buf)?;
    for t in &traces {
        if st.want_sample() && t.frames.len() >= 2 && !case.file.blocks.is_empty() {
            st.sample(|| json!({"mapping": crate::engine::show_bytes(&bytes), "trace": t.print()}));
        }
        no_panic("remap_stacktrace_typed", || {
            check_trace(&m, t, st)?;
            let mut scratch = Stats::new();
            check_trace(&cache, t, &mut scratch)?;
            st.evaluations += scratch.evaluations;
            Ok(())
        })?;
    }
    Ok(())
}

/// deep cause chains and very long traces (size thresholds inside the typed / text paths)
pub fn check_big(case: &MapCase, st: &mut Stats) -> Check {
    let u = Universe::from_ast(&case.file, false);
    let bytes = case.bytes();
    let pool = name_pool_for(&case.file, &u);
    let mut traces: Vec<TraceAst> = sample_n(&trace::deep_trace(&pool), case.key ^ 0xdee9, 2);
    traces.extend(sample_n(&trace::long_trace(&pool), case.key ^ 0x1049, 2));
    let m = mapper(&bytes, false)?;
    let buf = write_cache(&bytes)?;
    let cache = parse_cache(&buf)?;
    for t in &traces {
        st.class(if t.depth() > 100 { "cause chain depth >= 126" } else { "trace with >= 350 frames (printed form > 16 KiB)" });
        no_panic("remap_stacktrace_typed", || {
            check_trace(&m, t, st)?;
            check_trace(&cache, t, st)
        })
        .map_err(|mut f| {
            f.msg = crate::engine::truncate(&f.msg, 1500);
            f.detail = json!({"depth": t.depth(), "frames": t.frames.len()});
            f
        })?;
    }
    Ok(())
}

pub fn run(ctx: &Ctx) -> Report {
    let mut rep = Report::new(ID, "exploration", ctx);
    rep.rule = "Cases: generated mappings x 30 typed traces each (throwables of mapped and unmapped classes incl. platform exceptions, with/without message; frames mapped/unmapped with any line; cause chains of depth 0..4), for mapper and cache. Oracle: structural — same cause-chain depth; each throwable is remap_throwable(t) or t itself; the frame list is the concatenation of remap_frame(f) if non-empty else [f]; nothing dropped. Agreement: for traces in canonical printed form (try_parse(print(T)) == Some(T)), print(typed(T)) == text API output for print(T). evaluations = typed remaps checked (+ text comparisons). Non-trivial = distinct traces with >=1 unmapped throwable or unresolved frame and >=1 resolved element.".into();
    rep.run_stage("ast", || map_case(&cfg()), ctx.cases(15_000, 600_000), check_case);
    rep.run_stage("big", || map_case(&cfg()), ctx.cases(150, 3_000), check_big);
    rep
}

pub fn replay(stage: &str, case: &Value) -> Check {
    let mut st = Stats::new();
    match stage {
        "big" => check_big(&serde_json::from_value(case.clone()).map_err(|e| Fail::new("harness-replay", e.to_string()))?, &mut st),
        "ast" => check_case(&serde_json::from_value(case.clone()).map_err(|e| Fail::new("harness-replay", e.to_string()))?, &mut st),
        _ => Err(Fail::new("harness-replay", format!("unknown stage {stage}"))),
    }
}

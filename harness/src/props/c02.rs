//! C02 — a cache written from a mapping answers every query exactly like the mapper.

use super::common::*;
use crate::api::Retracer;
use crate::engine::{Check, Ctx, Fail, Report, Stats};
use crate::gen::mapping::GenCfg;
use crate::gen::mutate;
use crate::gen::universe::Universe;
use crate::model::retrace::Model;
use crate::transcript::{compare_retracers, Kinds};
use serde_json::{json, Value};

pub const ID: &str = "C02";

pub fn cfg() -> GenCfg {
    GenCfg { plain_sourcefile_headers: true, overloads: true, ..GenCfg::default() }
}

fn classify(case: &MapCase, st: &mut Stats) {
    let model = Model::new(&case.file);
    let mut with_bp = 0;
    let mut mismatch = false;
    let mut any_file = false;
    let mut sentinel = false;
    for c in model.classes.values() {
        let bp = c.entries.iter().filter(|e| e.by_params).count();
        if bp > 0 {
            with_bp += 1;
        }
        if bp != c.entries.len() {
            mismatch = true;
        }
        if c.entries.iter().any(|e| e.file.is_some()) {
            any_file = true;
        }
        if c.entries.iter().any(|e| {
            e.m.usable().is_some() && matches!(e.m.olines, crate::gen::mapping::OLines::S(_)) || e.m.args.is_empty()
        }) {
            sentinel = true;
        }
    }
    if with_bp >= 2 {
        st.class("file with >=2 classes having by-params entries");
    }
    if mismatch && model.classes.len() >= 2 {
        st.class("file with a class whose by-params count != member count (>=2 classes)");
    }
    if any_file {
        st.class("file with sourceFile in effect");
    }
    if sentinel {
        st.class("file with sentinel-relevant entries (':os' without ':oe' or empty args)");
    }
    if model.shadowed > 0 {
        st.class("file with duplicate class blocks");
    }
    if case.file.blocks.iter().flat_map(|b| &b.items).any(|i| matches!(i, crate::gen::mapping::Item::Header { key, .. } if key == "sourceFile")) {
        st.class("file with plain '# sourceFile' header");
    }
}

pub fn check_bytes(bytes: &[u8], u: &Universe, key: u64, st: &mut Stats) -> Check {
    let case_hash = crate::engine::fnv64(bytes);
    let extra = derive_extra(u, key, 6, 4, 8);
    let m_plain = mapper(bytes, false)?;
    let m_params = mapper(bytes, true)?;
    let buf = write_cache(bytes)?;
    let cache = parse_cache(&buf)?;
    no_panic("query", || {
        compare_retracers(&m_params, &cache, u, &extra, Kinds::all(), case_hash, st)?;
        // line-based answers must not depend on whether the parameter index was requested
        let mut scratch = Stats::new();
        let k = Kinds { params: false, ..Kinds::all() };
        compare_retracers(&m_plain as &dyn Retracer, &m_params, u, &extra, k, case_hash, &mut scratch).map_err(|mut f| {
            f.sig = format!("param-index-{}", f.sig);
            f
        })?;
        st.evaluations += scratch.evaluations;
        // all constructors of the mapper agree (From<&str>, From<(&str, bool)>, new_with_param_mapping(false))
        for (v, with_params) in mapper_variants(bytes)?.iter().skip(2) {
            let reference: &dyn Retracer = if *with_params { &m_params } else { &m_plain };
            let k = Kinds { params: *with_params, typed: false, ..Kinds::all() };
            let mut scratch = Stats::new();
            compare_retracers(reference, v, u, &extra, k, case_hash, &mut scratch).map_err(|mut f| {
                f.sig = format!("constructor-{}", f.sig);
                f
            })?;
            st.evaluations += scratch.evaluations;
        }
        Ok(())
    })
}

pub fn check_case(case: &MapCase, st: &mut Stats) -> Check {
    classify(case, st);
    let bytes = case.bytes();
    let u = Universe::from_ast(&case.file, true);
    if st.want_sample() && case.file.n_methods() >= 3 {
        st.sample(|| case.sample());
    }
    check_bytes(&bytes, &u, case.key, st)
}

pub fn check_mutant(case: &mutate::MutCase, st: &mut Stats) -> Check {
    let bytes = case.bytes();
    if !mutate::representable(&bytes) {
        st.class("mutant rejected by the representable-domain predicate");
        return Ok(());
    }
    st.class("mutant admitted");
    let u = Universe::from_bytes(&bytes, true, 40, 0);
    if st.want_sample() {
        st.sample(|| json!({"mutated mapping": crate::engine::show_bytes(&bytes)}));
    }
    check_bytes(&bytes, &u, case.key, st)
}

/// History stage: a random sequence of queries with heavy repetition and alternation, issued against ONE long-lived
/// mapper and ONE long-lived cache; every answer must equal the answer a fresh instance gives to that query alone
/// (state carried over between calls on the same object — hints, memo tables — must be invisible).
#[derive(Clone, Debug, serde::Serialize, serde::Deserialize)]
pub struct HistoryCase {
    pub map: MapCase,
    /// (class idx, method idx, line/params idx, kind)
    pub ops: Vec<(u16, u16, u16, u8)>,
}

pub fn history_case() -> proptest::strategy::BoxedStrategy<HistoryCase> {
    use proptest::prelude::*;
    let c = GenCfg { max_blocks: 4, max_items: 8, long: 0, ..cfg() };
    (map_case(&c), proptest::collection::vec((any::<u16>(), any::<u16>(), any::<u16>(), 0u8..6), 20..160))
        .prop_map(|(map, ops)| HistoryCase { map, ops })
        .boxed()
}

fn hist_answer(r: &dyn Retracer, q: &(String, String, u64, String, u8, String)) -> String {
    let (c, m, l, p, kind, extra) = q;
    match kind {
        0 => format!("{:?}", r.class(c)),
        1 => format!("{:?}", r.method(c, m)),
        2 => format!("{:?}", r.frame_line(c, m, *l, Some("F.java"))),
        3 => format!("{:?}", r.frame_params(c, m, p)),
        4 => format!("{:?}", r.sig(extra)),
        _ => format!("{:?}", r.text(extra)),
    }
}

pub fn check_history(h: &HistoryCase, st: &mut Stats) -> Check {
    let bytes = h.map.bytes();
    let u = Universe::from_ast(&h.map.file, false);
    if u.known_classes.is_empty() || u.known_methods.is_empty() {
        return Ok(());
    }
    let extra = derive_extra(&u, h.map.key, 4, 0, 6);
    // small pools => the same few classes / methods alternate all the time
    let classes: Vec<&String> = u.known_classes.iter().take(4).chain(u.other_classes.iter().take(1)).collect();
    let methods: Vec<&String> = u.known_methods.iter().take(4).collect();
    let lines: Vec<u64> = u.lines.iter().copied().filter(|l| *l < 70 || *l > (1 << 31)).collect();
    let pick = |f: u16, n: usize| (f as usize * n) >> 16;
    let long_m = mapper(&bytes, true)?;
    let buf = write_cache(&bytes)?;
    let long_c = parse_cache(&buf)?;
    let mut fresh: std::collections::HashMap<(String, String, u64, String, u8, String), (String, String)> = Default::default();
    for (i, (a, b, c, kind)) in h.ops.iter().enumerate() {
        st.evaluations += 1;
        let q = (
            classes[pick(*a, classes.len())].clone(),
            methods[pick(*b, methods.len())].clone(),
            lines[pick(*c, lines.len())],
            u.params[pick(*c, u.params.len())].clone(),
            *kind,
            match kind {
                4 => extra.sigs[pick(*c, extra.sigs.len())].clone(),
                5 => extra.texts[pick(*c, extra.texts.len())].clone(),
                _ => String::new(),
            },
        );
        let want = match fresh.get(&q) {
            Some(w) => w.clone(),
            None => {
                let fm = mapper(&bytes, true)?;
                let fc = parse_cache(&buf)?;
                let w = no_panic("query", || Ok((hist_answer(&fm, &q), hist_answer(&fc, &q))))?;
                fresh.insert(q.clone(), w.clone());
                w
            }
        };
        let got = no_panic("query", || Ok((hist_answer(&long_m, &q), hist_answer(&long_c, &q))))?;
        if i > 0 && got.0 != "None" && got.0 != "[]" {
            st.nontrivial(crate::transcript::qhash(crate::engine::fnv64(&bytes), b'h', &[&(i as u64).to_le_bytes(), got.0.as_bytes()]));
        }
        if got != want {
            return Err(Fail::new(
                "history-dependent-answer",
                format!("query #{i} {q:?} on long-lived instances answered (mapper, cache) = {got:?}, fresh instances answer {want:?}"),
            )
            .with(json!({"op_index": i})));
        }
        if want.0 != want.1 {
            return Err(Fail::new("diff-history", format!("query {q:?}: mapper={} cache={}", want.0, want.1)));
        }
    }
    st.class("history of 20..160 queries on one long-lived mapper and cache");
    if st.want_sample() {
        st.sample(|| json!({"mapping": crate::engine::show_bytes(&bytes[..bytes.len().min(600)]), "history length": h.ops.len(), "first ops (class idx, method idx, line/params idx, kind)": &h.ops[..h.ops.len().min(8)]}));
    }
    Ok(())
}

/// deep cause chains, very long traces / texts, parameter frames in typed traces: mapper vs cache
pub fn check_big(case: &MapCase, st: &mut Stats) -> Check {
    let u = Universe::from_ast(&case.file, false);
    let bytes = case.bytes();
    let pool = name_pool_for(&case.file, &u);
    let mut typed = crate::engine::sample_n(&crate::gen::trace::deep_trace(&pool), case.key ^ 1, 1);
    typed.extend(crate::engine::sample_n(&crate::gen::trace::long_trace(&pool), case.key ^ 2, 1));
    typed.extend(crate::engine::sample_n(&crate::gen::trace::param_trace(&pool, &u.params), case.key ^ 3, 6));
    let mut texts: Vec<String> = crate::engine::sample_n(&crate::gen::trace::long_text(&pool), case.key ^ 4, 1).into_iter().map(|t| t.render()).collect();
    texts.extend(typed.iter().take(2).map(|t| t.print()));
    let extra = crate::transcript::Extra { throwables: vec![], texts, typed, sigs: vec![] };
    let m_params = mapper(&bytes, true)?;
    let buf = write_cache(&bytes)?;
    let cache = parse_cache(&buf)?;
    st.class("big traces: depth >= 126, >= 350 frames / lines, parameter frames");
    if st.want_sample() {
        st.sample(|| json!({"typed traces (depth, frames)": extra.typed.iter().map(|t| (t.depth(), t.frames.len())).collect::<Vec<_>>(), "text lengths": extra.texts.iter().map(|t| t.len()).collect::<Vec<_>>()}));
    }
    no_panic("query", || crate::transcript::compare_extra(&m_params, &cache, &extra, Kinds { text: true, typed: true, ..Kinds::default() }, case.hash(), st)).map_err(|mut f| {
        f.msg = crate::engine::truncate(&f.msg, 1500);
        f.detail = Value::Null;
        f
    })
}

#[derive(Clone, Debug, serde::Serialize, serde::Deserialize)]
pub struct CorpusCase {
    pub path: String,
    pub crlf: bool,
    pub pick: u64,
    pub max_classes: usize,
}

pub fn check_corpus(case: &CorpusCase, st: &mut Stats) -> Check {
    let mut bytes = std::fs::read(&case.path).map_err(|e| Fail::new("harness-io", format!("{}: {e}", case.path)))?;
    if case.crlf {
        bytes = mutate::to_crlf(&bytes);
    }
    if !mutate::representable(&bytes) {
        st.class("corpus file outside the representable domain (skipped)");
        return Ok(());
    }
    let u = Universe::from_bytes(&bytes, false, case.max_classes, case.pick);
    st.sample(|| json!({"corpus file": case.path, "crlf": case.crlf, "classes sampled": u.known_classes.len(), "methods": u.known_methods.len()}));
    check_bytes(&bytes, &u, case.pick, st)
}

pub fn run(ctx: &Ctx) -> Report {
    let mut rep = Report::new(ID, "exploration", ctx);
    rep.rule = "Cases: grammar-generated mapping ASTs (representable domain, incl. plain '# sourceFile' headers, inline groups, overloads, duplicate class blocks) rendered with random line endings; token-mutated generated files admitted by the representable-domain predicate; corpus files of /repo/tests/res; plus a 'history' stage (random sequences of 20..160 repeated / alternating queries on one long-lived mapper and cache, each answer compared with fresh instances). Each case is checked on its complete query universe (class, method, frame-by-line over 0..66 + all range boundaries + extremes x file present/absent, frame-by-params, throwable, text trace, typed trace, signature): mapper(with param index) vs cache, and mapper without vs with param index. evaluations = single query comparisons. Non-trivial = distinct (case, query) pairs with a non-empty answer on at least one side (set of 64-bit hashes, capped).".into();
    rep.assumptions = vec![
        "cache buffers are 8-byte aligned (watto aligns by address; every real caller passes an mmap or allocator-aligned buffer)".into(),
        "domain: names (incl. fileName) non-empty, line numbers < 2^32-1".into(),
    ];
    let n = ctx.cases(5000, 180_000);
    rep.run_stage("ast", || map_case(&cfg()), n, check_case);
    let nt = ctx.cases(60, 2_400);
    rep.run_stage("tall", || tall_case(&cfg()), nt, check_case);
    let nm = ctx.cases(3000, 120_000);
    rep.run_stage("mutant", || mutate::mut_case(&cfg()), nm, check_mutant);
    rep.run_stage("big-traces", || map_case(&GenCfg { max_blocks: 4, max_items: 8, long: 0, ..cfg() }), ctx.cases(150, 3_000), check_big);
    rep.run_stage("history", history_case, ctx.cases(3000, 120_000), check_history);
    let corpus = corpus_cases(ctx);
    rep.run_enum("corpus", &corpus, check_corpus);
    super::scale::run(&mut rep, ctx, "C02");
    rep
}

pub fn corpus_files() -> Vec<String> {
    let mut v = Vec::new();
    if let Ok(rd) = std::fs::read_dir("/repo/tests/res") {
        for e in rd.flatten() {
            let p = e.path();
            if p.extension().map_or(false, |x| x == "txt") {
                v.push(p.to_string_lossy().to_string());
            }
        }
    }
    v.sort();
    v
}

pub fn corpus_cases(ctx: &Ctx) -> Vec<CorpusCase> {
    let mut out = Vec::new();
    for p in corpus_files() {
        for crlf in [false, true] {
            let big = p.ends_with("mapping-r8.txt") || p.ends_with("mapping-r8-symbolicated_file_names.txt") || p.ends_with("mapping.txt");
            let max_classes = if big { ctx.tier.pick(12, 60) } else { ctx.tier.pick(12, 40) };
            let reps = if big { ctx.tier.pick(1, 8) } else { 1 };
            for r in 0..reps {
                out.push(CorpusCase { path: p.clone(), crlf, pick: ctx.seed.wrapping_add(r), max_classes });
            }
        }
    }
    out
}

pub fn replay(stage: &str, case: &Value) -> Check {
    let mut st = Stats::new();
    if stage == "scale" {
        return super::scale::replay(case);
    }
    match stage {
        "ast" | "tall" => check_case(&serde_json::from_value(case.clone()).map_err(|e| Fail::new("harness-replay", e.to_string()))?, &mut st),
        "big-traces" => check_big(&serde_json::from_value(case.clone()).map_err(|e| Fail::new("harness-replay", e.to_string()))?, &mut st),
        "history" => check_history(&serde_json::from_value(case.clone()).map_err(|e| Fail::new("harness-replay", e.to_string()))?, &mut st),
        "mutant" => check_mutant(&serde_json::from_value(case.clone()).map_err(|e| Fail::new("harness-replay", e.to_string()))?, &mut st),
        "corpus" => check_corpus(&serde_json::from_value(case.clone()).map_err(|e| Fail::new("harness-replay", e.to_string()))?, &mut st),
        _ => Err(Fail::new("harness-replay", format!("unknown stage {stage}"))),
    }
}

//! C02 — a cache written from a mapping answers every query exactly like the mapper.

use super::common::*;
use crate::api::Retracer;
use crate::engine::{Check, Ctx, Fail, Report, Stats};
use crate::gen::mapping::GenCfg;
use crate::gen::mutate;
use crate::gen::universe::Universe;
use crate::model::retrace::Model;
use crate::transcript::{compare_retracers, Kinds};
use serde_json::{json, Value};

pub const ID: &str = "C02";

pub fn cfg() -> GenCfg {
    GenCfg { plain_sourcefile_headers: true, overloads: true, ..GenCfg::default() }
}

fn classify(case: &MapCase, st: &mut Stats) {
    let model = Model::new(&case.file);
    let mut with_bp = 0;
    let mut mismatch = false;
    let mut any_file = false;
    let mut sentinel = false;
    for c in model.classes.values() {
        let bp = c.entries.iter().filter(|e| e.by_params).count();
        if bp > 0 {
            with_bp += 1;
        }
        if bp != c.entries.len() {
            mismatch = true;
        }
        if c.entries.iter().any(|e| e.file.is_some()) {
            any_file = true;
        }
        if c.entries.iter().any(|e| {
            e.m.usable().is_some() && matches!(e.m.olines, crate::gen::mapping::OLines::S(_)) || e.m.args.is_empty()
        }) {
            sentinel = true;
        }
    }
    if with_bp >= 2 {
        st.class("file with >=2 classes having by-params entries");
    }
    if mismatch && model.classes.len() >= 2 {
        st.class("file with a class whose by-params count != member count (>=2 classes)");
    }
    if any_file {
        st.class("file with sourceFile in effect");
    }
    if sentinel {
        st.class("file with sentinel-relevant entries (':os' without ':oe' or empty args)");
    }
    if model.shadowed > 0 {
        st.class("file with duplicate class blocks");
    }
    if case.file.blocks.iter().flat_map(|b| &b.items).any(|i| matches!(i, crate::gen::mapping::Item::Header { key, .. } if key == "sourceFile")) {
        st.class("file with plain '# sourceFile' header");
    }
}

pub fn check_bytes(bytes: &[u8], u: &Universe, key: u64, st: &mut Stats) -> Check {
    let case_hash = crate::engine::fnv64(bytes);
    let extra = derive_extra(u, key, 6, 4, 8);
    let m_plain = mapper(bytes, false)?;
    let m_params = mapper(bytes, true)?;
    let buf = write_cache(bytes)?;
    let cache = parse_cache(&buf)?;
    no_panic("query", || {
        compare_retracers(&m_params, &cache, u, &extra, Kinds::all(), case_hash, st)?;
        // line-based answers must not depend on whether the parameter index was requested
        let mut scratch = Stats::new();
        let k = Kinds { params: false, ..Kinds::all() };
        compare_retracers(&m_plain as &dyn Retracer, &m_params, u, &extra, k, case_hash, &mut scratch).map_err(|mut f| {
            f.sig = format!("param-index-{}", f.sig);
            f
        })?;
        st.evaluations += scratch.evaluations;
        Ok(())
    })
}

pub fn check_case(case: &MapCase, st: &mut Stats) -> Check {
    classify(case, st);
    let bytes = case.bytes();
    let u = Universe::from_ast(&case.file, true);
    if st.want_sample() && case.file.n_methods() >= 3 {
        st.sample(|| case.sample());
    }
    check_bytes(&bytes, &u, case.key, st)
}

pub fn check_mutant(case: &mutate::MutCase, st: &mut Stats) -> Check {
    let bytes = case.bytes();
    if !mutate::representable(&bytes) {
        st.class("mutant rejected by the representable-domain predicate");
        return Ok(());
    }
    st.class("mutant admitted");
    let u = Universe::from_bytes(&bytes, true, 40, 0);
    if st.want_sample() {
        st.sample(|| json!({"mutated mapping": crate::engine::show_bytes(&bytes)}));
    }
    check_bytes(&bytes, &u, case.key, st)
}

#[derive(Clone, Debug, serde::Serialize, serde::Deserialize)]
pub struct CorpusCase {
    pub path: String,
    pub crlf: bool,
    pub pick: u64,
    pub max_classes: usize,
}

pub fn check_corpus(case: &CorpusCase, st: &mut Stats) -> Check {
    let mut bytes = std::fs::read(&case.path).map_err(|e| Fail::new("harness-io", format!("{}: {e}", case.path)))?;
    if case.crlf {
        bytes = mutate::to_crlf(&bytes);
    }
    if !mutate::representable(&bytes) {
        st.class("corpus file outside the representable domain (skipped)");
        return Ok(());
    }
    let u = Universe::from_bytes(&bytes, false, case.max_classes, case.pick);
    st.sample(|| json!({"corpus file": case.path, "crlf": case.crlf, "classes sampled": u.known_classes.len(), "methods": u.known_methods.len()}));
    check_bytes(&bytes, &u, case.pick, st)
}

pub fn run(ctx: &Ctx) -> Report {
    let mut rep = Report::new(ID, "exploration", ctx);
    rep.rule = "Cases: grammar-generated mapping ASTs (representable domain, incl. plain '# sourceFile' headers, inline groups, overloads, duplicate class blocks) rendered with random line endings; token-mutated generated files admitted by the representable-domain predicate; corpus files of /repo/tests/res. Each case is checked on its complete query universe (class, method, frame-by-line over 0..66 + all range boundaries + extremes x file present/absent, frame-by-params, throwable, text trace, typed trace, signature): mapper(with param index) vs cache, and mapper without vs with param index. evaluations = single query comparisons. Non-trivial = distinct (case, query) pairs with a non-empty answer on at least one side (set of 64-bit hashes, capped).".into();
    rep.assumptions = vec![
        "cache buffers are 8-byte aligned (watto aligns by address; every real caller passes an mmap or allocator-aligned buffer)".into(),
        "domain: names (incl. fileName) non-empty, line numbers < 2^32-1".into(),
    ];
    let n = ctx.cases(5000, 60_000);
    rep.run_stage("ast", || map_case(&cfg()), n, check_case);
    let nt = ctx.cases(60, 800);
    rep.run_stage("tall", || tall_case(&cfg()), nt, check_case);
    let nm = ctx.cases(3000, 40_000);
    rep.run_stage("mutant", || mutate::mut_case(&cfg()), nm, check_mutant);
    let corpus = corpus_cases(ctx);
    rep.run_enum("corpus", &corpus, check_corpus);
    rep
}

pub fn corpus_files() -> Vec<String> {
    let mut v = Vec::new();
    if let Ok(rd) = std::fs::read_dir("/repo/tests/res") {
        for e in rd.flatten() {
            let p = e.path();
            if p.extension().map_or(false, |x| x == "txt") {
                v.push(p.to_string_lossy().to_string());
            }
        }
    }
    v.sort();
    v
}

pub fn corpus_cases(ctx: &Ctx) -> Vec<CorpusCase> {
    let mut out = Vec::new();
    for p in corpus_files() {
        for crlf in [false, true] {
            let big = p.ends_with("mapping-r8.txt") || p.ends_with("mapping-r8-symbolicated_file_names.txt") || p.ends_with("mapping.txt");
            let max_classes = if big { ctx.tier.pick(12, 60) } else { ctx.tier.pick(12, 40) };
            let reps = if big { ctx.tier.pick(1, 8) } else { 1 };
            for r in 0..reps {
                out.push(CorpusCase { path: p.clone(), crlf, pick: ctx.seed.wrapping_add(r), max_classes });
            }
        }
    }
    out
}

pub fn replay(stage: &str, case: &Value) -> Check {
    let mut st = Stats::new();
    match stage {
        "ast" | "tall" => check_case(&serde_json::from_value(case.clone()).map_err(|e| Fail::new("harness-replay", e.to_string()))?, &mut st),
        "mutant" => check_mutant(&serde_json::from_value(case.clone()).map_err(|e| Fail::new("harness-replay", e.to_string()))?, &mut st),
        "corpus" => check_corpus(&serde_json::from_value(case.clone()).map_err(|e| Fail::new("harness-replay", e.to_string()))?, &mut st),
        _ => Err(Fail::new("harness-replay", format!("unknown stage {stage}"))),
    }
}

//! C06 — parsing is total and a bad line never affects the lines after it.

use crate::engine::{fnv64, guarded, hex, show_bytes, unhex, Check, Ctx, Fail, Report, Stats};
use crate::gen::mapping::GenCfg;
use crate::gen::mutate;
use proptest::collection::vec;
use proptest::prelude::*;
use proptest::sample::select;
use serde::{Deserialize, Serialize};
use serde_json::{json, Value};

pub const ID: &str = "C06";

#[derive(Clone, Debug, PartialEq, Eq)]
pub enum NItem {
    Ok(String),
    Err(Vec<u8>),
}

fn strip_term(b: &[u8]) -> &[u8] {
    let mut e = b.len();
    while e > 0 && (b[e - 1] == b'\n' || b[e - 1] == b'\r') {
        e -= 1;
    }
    &b[..e]
}

fn has_eol(s: &str) -> bool {
    s.contains(['\r', '\n'])
}

/// Iterate with the totality checks; returns the normalised item list.
/// norm: error items are compared by their line without trailing terminators; error items whose line is
/// empty / only terminators are dropped (the iterator reports a phantom error for blank trailing input).
pub fn records(bytes: &[u8]) -> Result<Vec<NItem>, Fail> {
    let r = guarded(|| {
        let mut out = Vec::new();
        let mut n = 0usize;
        for item in proguard::ProguardMapping::new(bytes).iter() {
            n += 1;
            if n > bytes.len() {
                return Err(Fail::new("more-items-than-bytes", format!("iterator yielded more than {} items for {} input bytes", bytes.len(), bytes.len())));
            }
            match item {
                Ok(rec) => {
                    use proguard::ProguardRecord as P;
                    let bad = match &rec {
                        P::Header { key, value } => has_eol(key) || value.map_or(false, has_eol),
                        P::Class { original, obfuscated } => has_eol(original) || has_eol(obfuscated),
                        P::Field { ty, original, obfuscated } => has_eol(ty) || has_eol(original) || has_eol(obfuscated),
                        P::Method { ty, original, obfuscated, arguments, original_class, .. } => {
                            has_eol(ty) || has_eol(original) || has_eol(obfuscated) || has_eol(arguments) || original_class.map_or(false, has_eol)
                        }
                    };
                    if bad {
                        return Err(Fail::new("terminator-in-record", format!("record {rec:?} contains a line terminator")));
                    }
                    out.push(NItem::Ok(format!("{rec:?}")));
                }
                Err(e) => {
                    let l = strip_term(e.line());
                    if !l.is_empty() {
                        out.push(NItem::Err(l.to_vec()));
                    }
                }
            }
        }
        Ok(out)
    });
    match r {
        Ok(r) => r,
        Err(p) => Err(Fail::new("parse-panic", format!("iterating records panicked: {p}"))),
    }
}

fn item_key(i: &Result<proguard::ProguardRecord<'_>, proguard::ParseError<'_>>) -> String {
    match i {
        Ok(r) => format!("Ok({r:?})"),
        Err(e) => format!("Err({:?})", e.line()),
    }
}

/// "Iterating its records" is any use of the iterator: `nth`, `skip`, `step_by`, `count`, `last`, a clone taken
/// mid-way, and the iterator of a `section()` must all agree with what plain `next()` yields.
pub fn check_iter_api(bytes: &[u8], st: &mut Stats) -> Check {
    // bounded pass first: an iterator that does not terminate must be reported, not collected
    records(bytes)?;
    st.evaluations += 1;
    let r = guarded(|| -> Check {
        let m = proguard::ProguardMapping::new(bytes);
        let all: Vec<String> = m.iter().map(|i| item_key(&i)).collect();
        let n = all.len();
        if m.iter().count() != n {
            return Err(Fail::new("iter-api", format!("count() = {} but next() yields {n} items", m.iter().count())));
        }
        if m.iter().last().map(|i| item_key(&i)) != all.last().cloned() {
            return Err(Fail::new("iter-api", "last() differs from the last item yielded by next()"));
        }
        for k in [0usize, 1, 2, 3, 5, n / 2, n.saturating_sub(1), n, n + 1] {
            let got = m.iter().nth(k).map(|i| item_key(&i));
            if got != all.get(k).cloned() {
                return Err(Fail::new("iter-api", format!("nth({k}) = {got:?} but the item at index {k} is {:?} ({} bytes of input)", all.get(k), bytes.len())));
            }
            let got: Vec<String> = m.iter().skip(k).map(|i| item_key(&i)).collect();
            if got[..] != all[k.min(n)..] {
                return Err(Fail::new("iter-api", format!("skip({k}) yields {} items, expected {}", got.len(), n - k.min(n))));
            }
        }
        for step in [2usize, 3, 7] {
            let got: Vec<String> = m.iter().step_by(step).map(|i| item_key(&i)).collect();
            let want: Vec<String> = all.iter().step_by(step).cloned().collect();
            if got != want {
                return Err(Fail::new("iter-api", format!("step_by({step}) differs from every {step}-th item of next()")));
            }
        }
        // a clone taken mid-way continues exactly where the original does
        let mut it = m.iter();
        for k in 0..n.min(4) {
            let _ = it.next();
            let rest_clone: Vec<String> = it.clone().map(|i| item_key(&i)).collect();
            if rest_clone[..] != all[k + 1..] {
                return Err(Fail::new("iter-api", format!("a clone of the iterator taken after {} items does not continue with the remaining items", k + 1)));
            }
        }
        Ok(())
    });
    match r {
        Ok(c) => c,
        Err(p) => Err(Fail::new("parse-panic", format!("iterator adaptor panicked: {p}"))),
    }
}

/// `section(range)` is the mapping of exactly those bytes, whatever was asked of the parent before.
pub fn check_section(bytes: &[u8], key: u64, st: &mut Stats) -> Check {
    if bytes.is_empty() {
        return Ok(());
    }
    records(bytes)?;
    st.evaluations += 1;
    let r = guarded(|| -> Check {
        let parent = proguard::ProguardMapping::new(bytes);
        // use the parent first (anything it may memoise is now filled)
        let _ = parent.has_line_info();
        let _ = parent.is_valid();
        let _ = parent.summary().class_count();
        let _ = parent.iter().count();
        let _ = parent.uuid();
        // ranges at line starts and at arbitrary offsets
        let mut cuts: Vec<usize> = vec![0, bytes.len()];
        cuts.extend(bytes.iter().enumerate().filter(|(_, c)| **c == b'\n').map(|(i, _)| i + 1).take(40));
        let mut x = key | 1;
        for _ in 0..4 {
            x ^= x << 13;
            x ^= x >> 7;
            x ^= x << 17;
            cuts.push((x as usize) % (bytes.len() + 1));
        }
        cuts.sort();
        cuts.dedup();
        for (i, &a) in cuts.iter().enumerate() {
            for &b in cuts.iter().skip(i).step_by(3) {
                let sec = parent.section(a..b);
                let fresh = proguard::ProguardMapping::new(&bytes[a..b]);
                // the bytes of a section are an input of their own: bounded pass first (a cut can create a malformed
                // line that the whole input does not have)
                records(&bytes[a..b])?;
                let got: Vec<String> = sec.iter().take(b - a + 2).map(|i| item_key(&i)).collect();
                let want: Vec<String> = fresh.iter().take(b - a + 2).map(|i| item_key(&i)).collect();
                if got != want {
                    return Err(Fail::new("section-records", format!("section({a}..{b}) of a {}-byte mapping yields {} records, the same bytes as a new mapping yield {}", bytes.len(), got.len(), want.len())));
                }
                let meta = |m: &proguard::ProguardMapping| {
                    let s = m.summary();
                    (m.has_line_info(), m.is_valid(), s.class_count(), s.method_count(), s.compiler().map(|x| x.to_string()), s.compiler_version().map(|x| x.to_string()), s.min_api(), m.uuid())
                };
                let (g, w) = (meta(&sec), meta(&fresh));
                if g != w {
                    return Err(Fail::new("section-metadata", format!("section({a}..{b}) answers {g:?}, a new mapping over the same bytes answers {w:?}")));
                }
                let gc = meta(&sec.clone());
                if gc != w {
                    return Err(Fail::new("section-metadata", format!("clone of section({a}..{b}) answers {gc:?}, expected {w:?}")));
                }
                let write = |m: &proguard::ProguardMapping| {
                    let mut v = Vec::new();
                    proguard::ProguardCache::write(m, &mut v).map(|_| v).map_err(|e| e.to_string())
                };
                if write(&sec) != write(&fresh) {
                    return Err(Fail::new("section-write", format!("ProguardCache::write of section({a}..{b}) differs from writing a new mapping over the same bytes")));
                }
            }
        }
        // and the parent is unaffected by what its sections were asked
        let again: Vec<String> = parent.iter().map(|i| item_key(&i)).collect();
        let fresh: Vec<String> = proguard::ProguardMapping::new(bytes).iter().map(|i| item_key(&i)).collect();
        if again != fresh {
            return Err(Fail::new("section-records", "the parent mapping yields different records after its sections were used"));
        }
        Ok(())
    });
    match r {
        Ok(c) => c,
        Err(p) => Err(Fail::new("parse-panic", format!("section()/clone() sequence panicked: {p}"))),
    }
}

pub fn check_split(a: &[u8], t: &[u8], b: &[u8], st: &mut Stats) -> Check {
    st.evaluations += 1;
    let mut s = Vec::with_capacity(a.len() + t.len() + b.len());
    s.extend_from_slice(a);
    s.extend_from_slice(t);
    s.extend_from_slice(b);
    let whole = records(&s)?;
    let mut parts = records(a)?;
    let ra_len = parts.len();
    parts.extend(records(b)?);
    let has_ok = whole.iter().any(|i| matches!(i, NItem::Ok(_)));
    let has_err = whole.iter().any(|i| matches!(i, NItem::Err(_)));
    // the last line of A alone is an error: the split point falls inside/after a bad line
    let last_a_err = ra_len > 0 && matches!(parts[ra_len - 1], NItem::Err(_));
    if (has_ok && has_err) || last_a_err {
        st.nontrivial(fnv64(&s) ^ (a.len() as u64).wrapping_mul(0x9e3779b97f4a7c15));
    }
    if whole != parts {
        let show = |v: &Vec<NItem>| {
            v.iter()
                .map(|i| match i {
                    NItem::Ok(s) => format!("Ok({s})"),
                    NItem::Err(l) => format!("Err({:?})", show_bytes(l)),
                })
                .collect::<Vec<_>>()
        };
        return Err(Fail::new(
            "no-resync",
            format!(
                "records(A ++ {:?} ++ B) != records(A) ++ records(B) for A={:?} B={:?}: whole={:?} parts={:?}",
                show_bytes(t),
                show_bytes(a),
                show_bytes(b),
                show(&whole),
                show(&parts)
            ),
        )
        .with(json!({"a_hex": hex(a), "t_hex": hex(t), "b_hex": hex(b)})));
    }
    Ok(())
}

pub const SF_PREFIX: &str = "# {\"id\":\"sourceFile\",\"fileName\":\"";

pub const SOUP: &[&[u8]] = &[
    b"    ", b" ", b":", b" -> ", b"(", b")", b"#", b"\n", b"\r", b"\r\n", b".", b"# {\"id\":\"sourceFile\",\"fileName\":\"", b"\"}", b"\"", b"\xff", b"\xb2", b"\xc3", b"a", b"b", b"void", b"1", b"0",
    b"99999999999999999999999", b"18446744073709551615", b"a.b.C -> x:", b"    1:2:void m():3:4 -> y", b"    int f -> z", b"# compiler: R8", b"Foo.kt", b"\t", b"\0", b"\xe6\xbc\xa2", b"1:2:", b":3", b"()", b",",
    // control bytes and Unicode line separators next to real terminators, backslashes, byte order mark
    b"\x0b", b"\x0c", b"\x0b\n", b"\x0c\r", b"\x1f", b"\x1c", b"\\", b"\\\n", b"\\\\", b"\xc2\x85", b"\xe2\x80\xa8", b"\xe2\x80\xa9", b"\xef\xbb\xbf", b"abcdefg", b"# k: vvvvvv", b"    int f -> zzzzzz",
];

#[derive(Clone, Debug, Serialize, Deserialize)]
pub struct PairCase {
    pub a: Vec<u16>,
    pub b: Vec<u16>,
}

fn soup_bytes(v: &[u16]) -> Vec<u8> {
    let mut out = Vec::new();
    for i in v {
        out.extend_from_slice(SOUP[(*i as usize * SOUP.len()) >> 16]);
    }
    out
}

pub fn pair_case() -> BoxedStrategy<PairCase> {
    (vec(any::<u16>(), 0..14), vec(any::<u16>(), 0..14)).prop_map(|(a, b)| PairCase { a, b }).boxed()
}

pub fn check_pair(c: &PairCase, st: &mut Stats) -> Check {
    let a = soup_bytes(&c.a);
    let b = soup_bytes(&c.b);
    if a.windows(SF_PREFIX.len()).any(|w| w == SF_PREFIX.as_bytes()) {
        st.class("sourceFile prefix before the split");
    }
    if a.iter().chain(b.iter()).any(|c| *c >= 0x80) {
        st.class("non-ASCII / invalid UTF-8 bytes");
    }
    if a.contains(&b'\r') && !a.contains(&b'\n') {
        st.class("CR-only terminators in A");
    }
    if st.want_sample() && a.len() > 10 && b.len() > 10 {
        st.sample(|| json!({"A": show_bytes(&a), "B": show_bytes(&b)}));
    }
    for t in [&b"\n"[..], b"\r", b"\r\n"] {
        check_split(&a, t, &b, st)?;
    }
    let mut joined = a.clone();
    joined.extend_from_slice(b"\r\n");
    joined.extend_from_slice(&b);
    check_iter_api(&joined, st)?;
    if st.cases % 8 == 0 {
        check_section(&joined, c.a.len() as u64 * 31 + c.b.len() as u64, st)?;
    }
    Ok(())
}

#[derive(Clone, Debug, Serialize, Deserialize)]
pub struct BytesCase {
    pub hex: String,
}

pub fn bytes_case() -> BoxedStrategy<BytesCase> {
    prop_oneof![
        vec(any::<u8>(), 0..200).prop_map(|v| BytesCase { hex: hex(&v) }),
        vec(select(&[b' ', b':', b'-', b'>', b'(', b')', b'#', b'\n', b'\r', b'a', b'1', b'.', b'"', b'}', 0xffu8, 0xb2, 0x0b, 0x0c, b'\\', b'a', b'a', b'\n'][..]), 0..120).prop_map(|v| BytesCase { hex: hex(&v) }),
    ]
    .boxed()
}

/// totality on arbitrary bytes + resynchronisation at every line-feed / carriage-return of the input
pub fn check_bytes(bytes: &[u8], max_splits: usize, st: &mut Stats) -> Check {
    st.evaluations += 1;
    records(bytes)?;
    let positions: Vec<usize> = bytes.iter().enumerate().filter(|(_, c)| **c == b'\n' || **c == b'\r').map(|(i, _)| i).collect();
    let step = (positions.len() / max_splits.max(1)).max(1);
    for &i in positions.iter().step_by(step) {
        check_split(&bytes[..i], &bytes[i..i + 1], &bytes[i + 1..], st)?;
    }
    Ok(())
}

pub fn check_mutant(c: &mutate::MutCase, st: &mut Stats) -> Check {
    let b = c.bytes();
    if st.want_sample() && b.len() > 40 {
        st.sample(|| json!({"hostile mutant": show_bytes(&b)}));
    }
    if b.windows(20).any(|w| w.iter().all(|c| c.is_ascii_digit())) {
        st.class("huge digit runs");
    }
    check_iter_api(&b, st)?;
    check_section(&b, c.key, st)?;
    check_bytes(&b, 64, st)
}

// ---- bounded-exhaustive short strings
pub const ALPHA: &[&[u8]] = &[b"a", b" ", b" -> ", b":", b"#", b"\n", b"\r", b"# {\"id\":\"sourceFile\",\"fileName\":\"", b"\"}", b"\\", b"\x0b"];

#[derive(Clone, Debug, Serialize)]
pub struct Chunk {
    pub len: usize,
    pub first: usize,
}

pub fn check_chunk(c: &Chunk, st: &mut Stats) -> Check {
    let n = ALPHA.len();
    let mut idx = vec![0usize; c.len];
    idx[0] = c.first;
    let mut s: Vec<u8> = Vec::new();
    let mut offs: Vec<usize> = Vec::new();
    loop {
        s.clear();
        offs.clear();
        for i in &idx {
            offs.push(s.len());
            s.extend_from_slice(ALPHA[*i]);
        }
        st.evaluations += 1;
        records(&s)?;
        if c.len <= 5 {
            check_iter_api(&s, st)?;
        }
        for (k, i) in idx.iter().enumerate() {
            if *i == 5 || *i == 6 {
                let at = offs[k];
                check_split(&s[..at], &s[at..at + 1], &s[at + 1..], st)?;
            }
        }
        let mut p = c.len;
        loop {
            if p == 1 {
                return Ok(());
            }
            p -= 1;
            idx[p] += 1;
            if idx[p] < n {
                break;
            }
            idx[p] = 0;
        }
    }
}

#[derive(Clone, Debug, Serialize, Deserialize)]
pub struct CorpusSplit {
    pub path: String,
    pub splits: usize,
}

pub fn check_corpus(c: &CorpusSplit, st: &mut Stats) -> Check {
    let bytes = std::fs::read(&c.path).map_err(|e| Fail::new("harness-io", format!("{}: {e}", c.path)))?;
    st.class("corpus file");
    if bytes.len() < 100_000 {
        check_iter_api(&bytes, st)?;
        check_iter_api(&mutate::to_crlf(&bytes), st)?;
    }
    check_bytes(&bytes, c.splits, st)?;
    check_bytes(&mutate::to_crlf(&bytes), c.splits / 2 + 1, st)
}

/// Inputs beyond 2^31 and 2^32 bytes: a handful of short records separated by comment lines of `gap` bytes each.
/// Oracle: resynchronisation — exactly the short records, in order, each once, between exactly `gaps` long header
/// items whose key has the full length; bounded iteration.
#[derive(Clone, Debug, serde::Serialize, serde::Deserialize)]
pub struct HugeInput {
    pub gap: usize,
    pub gaps: usize,
    pub crlf: bool,
}

pub fn check_huge_input(c: &HugeInput, st: &mut Stats) -> Check {
    let eol: &[u8] = if c.crlf { b"\r\n" } else { b"\n" };
    let short: Vec<String> = (0..=c.gaps).map(|i| format!("com.example.K{i} -> k{i}:")).collect();
    let mut input: Vec<u8> = Vec::with_capacity(c.gaps * (c.gap + 4) + 64 * (c.gaps + 1));
    for (i, s) in short.iter().enumerate() {
        input.extend_from_slice(s.as_bytes());
        input.extend_from_slice(eol);
        if i < c.gaps {
            input.push(b'#');
            input.resize(input.len() + c.gap - 1, b'x');
            input.extend_from_slice(eol);
        }
    }
    st.class(&format!("input of {} GiB", input.len() >> 30));
    st.nontrivial(fnv64(&[c.gaps as u8, (c.gap >> 24) as u8, c.crlf as u8]));
    let total = input.len();
    let r = guarded(|| -> Check {
        let mut classes = Vec::new();
        let mut longs = 0usize;
        let mut items = 0usize;
        for item in proguard::ProguardMapping::new(&input).iter() {
            items += 1;
            if items > 4 * (c.gaps + 2) {
                return Err(Fail::new("more-items-than-bytes", format!("input of {total} bytes with {} lines: the iterator has yielded {items} items and goes on (classes so far: {classes:?})", 2 * c.gaps + 1)));
            }
            match item {
                Ok(proguard::ProguardRecord::Class { original, obfuscated }) => classes.push(format!("{original} -> {obfuscated}:")),
                Ok(proguard::ProguardRecord::Header { key, value }) => {
                    if key.len() != c.gap - 1 || value.is_some() {
                        return Err(Fail::new("huge-input", format!("comment line of {} bytes came back as a header with a key of {} bytes (value present: {})", c.gap, key.len(), value.is_some())));
                    }
                    longs += 1;
                }
                Ok(other) => return Err(Fail::new("huge-input", format!("unexpected record {}", crate::engine::truncate(&format!("{other:?}"), 200)))),
                Err(e) => {
                    if !e.line().iter().all(|b| *b == b'\r' || *b == b'\n') {
                        return Err(Fail::new("huge-input", format!("unexpected error item with a line of {} bytes", e.line().len())));
                    }
                }
            }
        }
        if classes != short || longs != c.gaps {
            return Err(Fail::new("resync", format!("input of {total} bytes: expected the class records {short:?} around {} long comment lines, the iterator yielded {classes:?} around {longs}", c.gaps)));
        }
        Ok(())
    });
    st.evaluations += 1;
    match r {
        Ok(x) => x,
        Err(p) => Err(Fail::new("parse-panic", format!("iterating an input of {total} bytes panicked: {p}"))),
    }
}

pub fn run(ctx: &Ctx) -> Report {
    let mut rep = Report::new(ID, "exploration", ctx);
    rep.rule = "Generated: pairs (A,B) of token soups over the grammar's delimiters (4 spaces, ':', ' -> ', parentheses, '#', LF, CR, CRLF, the sourceFile JSON prefix/suffix, quotes, 0xff, 0xb2, huge digit runs, whole valid lines) joined by LF, CR and CRLF; random byte strings and delimiter-byte strings split at every line break; hostile token mutants of generated mappings (numbers around 2^32/2^64, invalid UTF-8, unterminated sourceFile headers); corpus files cut at sampled line boundaries; bounded-exhaustive: all strings of <=6 (quick) / <=7 (thorough) symbols over an 11-symbol alphabet (a, space, arrow, colon, #, LF, CR, sourceFile prefix, quote-brace, backslash, VT), split at every LF/CR symbol. plus inputs of 2^31+ and 2^32+ bytes (short records between comment lines of 2 GiB). Oracle: iteration terminates with items <= input bytes; every way of iterating (nth, skip, step_by, count, last, a clone taken mid-way, the iterator of a section() taken after the parent was used) yields what plain next() yields; no yielded component contains CR/LF, and records(A ++ t ++ B) == records(A) ++ records(B) after norm (error items compared by their line without terminators; error items with an empty line dropped). evaluations = inputs iterated + split relations checked. Non-trivial = distinct (input, split) whose records contain both an Ok and an Err item, or whose A ends in an error line.".into();
    rep.assumptions = vec!["phantom error items for blank trailing input are ignored (norm)".into()];
    rep.run_stage("pairs", pair_case, ctx.cases(150_000, 12_000_000), check_pair);
    rep.run_stage("bytes", bytes_case, ctx.cases(20_000, 1_500_000), |c: &BytesCase, st: &mut Stats| check_bytes(&unhex(&c.hex), 32, st));
    let cfg = GenCfg { plain_sourcefile_headers: true, ..GenCfg::default() };
    rep.run_stage("mutants", move || mutate::hostile_case(&cfg), ctx.cases(10_000, 900_000), check_mutant);
    let max_len = ctx.tier.pick(6, 7);
    let mut chunks = Vec::new();
    for len in 1..=max_len {
        for first in 0..ALPHA.len() {
            chunks.push(Chunk { len, first });
        }
    }
    chunks.reverse();
    rep.run_enum("exhaustive", &chunks, check_chunk);
    rep.stats.exhaustive.push(format!("all strings of length <= {max_len} over the 11-symbol alphabet, every LF/CR split"));
    let splits = ctx.tier.pick(24, 400);
    let corpus: Vec<CorpusSplit> = super::c02::corpus_files().into_iter().map(|p| CorpusSplit { path: p, splits }).collect();
    rep.run_enum("corpus", &corpus, check_corpus);
    rep.run_enum("default-objects", &[0u8], super::common::check_default_objects);
    // inputs longer than 2^31 and 2^32 bytes (one at a time: 2.1 and 4.3 GB of memory)
    let huge = ctx.tier.pick(
        &[HugeInput { gap: (1usize << 31) + 16, gaps: 1, crlf: false }, HugeInput { gap: (1usize << 31) + 16, gaps: 2, crlf: true }][..],
        &[HugeInput { gap: (1usize << 31) + 16, gaps: 1, crlf: false }, HugeInput { gap: (1usize << 31) + 16, gaps: 2, crlf: true }, HugeInput { gap: (1usize << 32) + 5, gaps: 1, crlf: false }, HugeInput { gap: (1usize << 30) + 1, gaps: 9, crlf: false }][..],
    );
    let ctx1 = Ctx { threads: 1, ..ctx.clone() };
    let mut rep1 = Report::new(ID, "exploration", &ctx1);
    rep1.run_enum("huge-input", huge, check_huge_input);
    rep.stats.merge(std::mem::take(&mut rep1.stats));
    rep.violations.append(&mut rep1.violations);
    rep
}

pub fn replay(stage: &str, case: &Value) -> Check {
    if stage == "default-objects" {
        return super::common::check_default_objects(&0, &mut Stats::new());
    }
    let mut st = Stats::new();
    let de = |e: serde_json::Error| Fail::new("harness-replay", e.to_string());
    match stage {
        "pairs" => check_pair(&serde_json::from_value(case.clone()).map_err(de)?, &mut st),
        "bytes" => {
            let c: BytesCase = serde_json::from_value(case.clone()).map_err(de)?;
            check_bytes(&unhex(&c.hex), usize::MAX, &mut st)
        }
        "mutants" => check_mutant(&serde_json::from_value(case.clone()).map_err(de)?, &mut st),
        "exhaustive" => check_chunk(&Chunk { len: case["len"].as_u64().unwrap_or(1) as usize, first: case["first"].as_u64().unwrap_or(0) as usize }, &mut st),
        "corpus" => check_corpus(&serde_json::from_value(case.clone()).map_err(de)?, &mut st),
        "huge-input" => check_huge_input(&serde_json::from_value(case.clone()).map_err(de)?, &mut st),
        "split" => check_split(&unhex(case["a_hex"].as_str().unwrap_or("")), &unhex(case["t_hex"].as_str().unwrap_or("")), &unhex(case["b_hex"].as_str().unwrap_or("")), &mut st),
        _ => Err(Fail::new("harness-replay", format!("unknown stage {stage}"))),
    }
}

//! C15 — cache writing is independent of sink chunking and propagates sink errors.

use super::common::*;
use crate::engine::{guarded, Check, Ctx, Fail, Report, Stats};
use crate::gen::mapping::GenCfg;
use crate::model::layout;
use crate::transcript::qhash;
use serde::{Deserialize, Serialize};
use serde_json::{json, Value};
use std::io::{self, Write};

pub const ID: &str = "C15";

pub fn cfg() -> GenCfg {
    GenCfg { plain_sourcefile_headers: false, max_blocks: 5, max_items: 6, long: 0, ..GenCfg::default() }
}

#[derive(Clone, Debug, Serialize, Deserialize, PartialEq, Eq)]
pub enum Script {
    /// accept everything (used to record the call sequence)
    All,
    /// accept at most k bytes per call
    MaxK(usize),
    /// accept only `len` bytes at call index `call` (0-based), everything otherwise
    ShortOnceAt { call: usize, len: usize },
    /// fail with ErrorKind::Other at call index `call`
    FailAt { call: usize },
    /// return ErrorKind::Interrupted once at call index `call`
    InterruptAt { call: usize },
    /// one short call and one later failure
    ShortThenFail { short_call: usize, len: usize, fail_call: usize },
    /// at most k bytes per call and a failure at call index `fail_call`
    MaxKThenFail { k: usize, fail_call: usize },
    /// a short write at `short_call` and ErrorKind::Interrupted at `int_call` (typically the continuation call)
    ShortThenInterrupt { short_call: usize, len: usize, int_call: usize },
    /// at most k bytes per call and one ErrorKind::Interrupted at call index `int_call`
    MaxKInterrupt { k: usize, int_call: usize },
    /// sink that implements write_vectored itself: accepts at most k bytes per call, spanning slices
    VecMaxK(usize),
    /// fixed-capacity sink (`&mut [u8]`, a bounded pipe): accepts bytes until `cap` is reached, then returns Ok(0)
    Capacity(usize),
    /// at most k bytes per call; at call `at` the sink returns an error of kind `kind` ONCE and then recovers
    /// (kind: 0 WouldBlock, 1 TimedOut, 2 Interrupted, 3 Other, 4 BrokenPipe, 5 WriteZero, 6 OutOfMemory)
    MaxKErrOnce { k: usize, at: usize, kind: u8 },
    /// at most k bytes per call; from call index `at` on, `n` consecutive calls return ErrorKind::Interrupted
    /// (a signal storm); the sink then continues normally
    InterruptBurst { k: usize, at: usize, n: usize },
    /// at most k bytes per call; every successful call is preceded by `n` interrupted ones
    InterruptEvery { k: usize, n: usize },
    /// one interruption at `at`, directly followed by a non-retryable failure of kind `kind`
    InterruptThenFail { k: usize, at: usize, kind: u8 },
}

pub fn err_kind(kind: u8) -> io::ErrorKind {
    match kind % 7 {
        0 => io::ErrorKind::WouldBlock,
        1 => io::ErrorKind::TimedOut,
        2 => io::ErrorKind::Interrupted,
        3 => io::ErrorKind::Other,
        4 => io::ErrorKind::BrokenPipe,
        5 => io::ErrorKind::WriteZero,
        _ => io::ErrorKind::OutOfMemory,
    }
}

pub struct Sink {
    pub script: Script,
    pub accepted: Vec<u8>,
    pub calls: usize,
    /// (offset, requested length) per call
    pub log: Vec<(usize, usize)>,
    pub failed: bool,
    pub interrupted: bool,
    /// returned Ok(0) for a non-empty buffer (fixed-capacity sink exhausted)
    pub full: bool,
    /// returned a one-shot error of a kind other than Interrupted and kept working afterwards
    pub transient: bool,
    pub flushes: usize,
}

impl Sink {
    pub fn new(script: Script) -> Sink {
        Sink { script, accepted: Vec::new(), calls: 0, log: Vec::new(), failed: false, interrupted: false, full: false, transient: false, flushes: 0 }
    }
}

impl Write for Sink {
    fn write(&mut self, buf: &[u8]) -> io::Result<usize> {
        let call = self.calls;
        self.calls += 1;
        self.log.push((self.accepted.len(), buf.len()));
        if buf.is_empty() {
            return Ok(0);
        }
        let take = |n: usize| n.min(buf.len()).max(1);
        let n = match &self.script {
            Script::All => buf.len(),
            Script::MaxK(k) => take(*k),
            Script::ShortOnceAt { call: c, len } => {
                if call == *c {
                    take(*len)
                } else {
                    buf.len()
                }
            }
            Script::FailAt { call: c } => {
                if call == *c {
                    self.failed = true;
                    return Err(io::Error::new(io::ErrorKind::Other, "scripted sink failure"));
                }
                buf.len()
            }
            Script::InterruptAt { call: c } => {
                if call == *c {
                    self.interrupted = true;
                    return Err(io::Error::new(io::ErrorKind::Interrupted, "scripted interruption"));
                }
                buf.len()
            }
            Script::ShortThenFail { short_call, len, fail_call } => {
                if call == *fail_call {
                    self.failed = true;
                    return Err(io::Error::new(io::ErrorKind::Other, "scripted sink failure"));
                }
                if call == *short_call {
                    take(*len)
                } else {
                    buf.len()
                }
            }
            Script::MaxKThenFail { k, fail_call } => {
                if call == *fail_call {
                    self.failed = true;
                    return Err(io::Error::new(io::ErrorKind::Other, "scripted sink failure"));
                }
                take(*k)
            }
            Script::ShortThenInterrupt { short_call, len, int_call } => {
                if call == *int_call {
                    self.interrupted = true;
                    return Err(io::Error::new(io::ErrorKind::Interrupted, "scripted interruption"));
                }
                if call == *short_call {
                    take(*len)
                } else {
                    buf.len()
                }
            }
            Script::MaxKInterrupt { k, int_call } => {
                if call == *int_call {
                    self.interrupted = true;
                    return Err(io::Error::new(io::ErrorKind::Interrupted, "scripted interruption"));
                }
                take(*k)
            }
            Script::VecMaxK(k) => take(*k),
            Script::Capacity(cap) => {
                let room = cap.saturating_sub(self.accepted.len());
                if room == 0 {
                    // "no longer able to accept bytes": legal for a non-empty buffer; the caller must not report success
                    self.full = true;
                    return Ok(0);
                }
                buf.len().min(room)
            }
            Script::MaxKErrOnce { k, at, kind } => {
                if call == *at {
                    if err_kind(*kind) == io::ErrorKind::Interrupted {
                        self.interrupted = true;
                    } else {
                        self.transient = true;
                    }
                    return Err(io::Error::new(err_kind(*kind), "scripted one-shot error"));
                }
                take(*k)
            }
            Script::InterruptBurst { k, at, n } => {
                if call >= *at && call < *at + *n {
                    self.interrupted = true;
                    return Err(io::Error::new(io::ErrorKind::Interrupted, "scripted interruption (burst)"));
                }
                take(*k)
            }
            Script::InterruptEvery { k, n } => {
                if call % (*n + 1) != *n {
                    self.interrupted = true;
                    return Err(io::Error::new(io::ErrorKind::Interrupted, "scripted interruption (periodic)"));
                }
                take(*k)
            }
            Script::InterruptThenFail { k, at, kind } => {
                if call == *at {
                    self.interrupted = true;
                    return Err(io::Error::new(io::ErrorKind::Interrupted, "scripted interruption"));
                }
                if call == *at + 1 {
                    self.failed = true;
                    let kind = if err_kind(*kind) == io::ErrorKind::Interrupted { io::ErrorKind::Other } else { err_kind(*kind) };
                    return Err(io::Error::new(kind, "scripted failure right after an interruption"));
                }
                take(*k)
            }
        };
        self.accepted.extend_from_slice(&buf[..n]);
        Ok(n)
    }
    fn flush(&mut self) -> io::Result<()> {
        self.flushes += 1;
        Ok(())
    }
    fn write_vectored(&mut self, bufs: &[io::IoSlice<'_>]) -> io::Result<usize> {
        if let Script::VecMaxK(k) = self.script {
            // a real vectored sink: accepts up to k bytes across slice boundaries in one call
            self.calls += 1;
            let total: usize = bufs.iter().map(|b| b.len()).sum();
            self.log.push((self.accepted.len(), total));
            if total == 0 {
                return Ok(0);
            }
            let mut left = k.max(1);
            let mut n = 0;
            for b in bufs {
                let t = b.len().min(left);
                self.accepted.extend_from_slice(&b[..t]);
                n += t;
                left -= t;
                if left == 0 {
                    break;
                }
            }
            return Ok(n);
        }
        // default behaviour: first non-empty buffer through write()
        match bufs.iter().find(|b| !b.is_empty()) {
            Some(b) => self.write(b),
            None => Ok(0),
        }
    }
}

/// One sink run against the three laws. Returns Err(description) on violation.
pub fn run_sink(mapping: &[u8], canonical: &[u8], script: &Script) -> Result<(bool, usize), Fail> {
    let mut sink = Sink::new(script.clone());
    let res = guarded(|| {
        let m = proguard::ProguardMapping::new(mapping);
        proguard::ProguardCache::write(&m, &mut sink)
    })
    .map_err(|p| Fail::new("write-panic", format!("write panicked with sink {script:?}: {p}")))?;
    let is_prefix = canonical.len() >= sink.accepted.len() && canonical[..sink.accepted.len()] == sink.accepted[..];
    let detail = json!({"script": script, "accepted_len": sink.accepted.len(), "canonical_len": canonical.len(), "calls": sink.calls});
    match &res {
        Ok(()) => {
            if sink.failed {
                return Err(Fail::new("error-swallowed", format!("sink {script:?} reported a non-retryable failure but write returned Ok")).with(detail));
            }
            if sink.accepted != canonical {
                let first = sink.accepted.iter().zip(canonical).position(|(a, b)| a != b).unwrap_or(sink.accepted.len().min(canonical.len()));
                return Err(Fail::new(
                    "success-wrong-bytes",
                    format!("write returned Ok with sink {script:?} but the accepted bytes ({}) differ from the canonical serialisation ({}) from offset {first}", sink.accepted.len(), canonical.len()),
                )
                .with(detail));
            }
        }
        Err(_) => {
            if !sink.failed && !sink.interrupted && !sink.full && !sink.transient {
                return Err(Fail::new("spurious-error", format!("write returned Err although sink {script:?} never failed: {res:?}")).with(detail));
            }
        }
    }
    if !is_prefix {
        return Err(Fail::new("not-a-prefix", format!("with sink {script:?} the accepted bytes are not a prefix of the canonical serialisation (outcome {:?})", res.as_ref().map_err(|e| e.kind()))).with(detail));
    }
    Ok((res.is_ok(), sink.calls))
}

pub fn scripts_for(log: &[(usize, usize)], tier_full: bool) -> Vec<Script> {
    let n = log.len();
    let mut v = Vec::new();
    for k in 1..=16 {
        v.push(Script::MaxK(k));
    }
    for (i, (_off, len)) in log.iter().enumerate() {
        // shortened lengths >= 1 and < len
        let mut lens: Vec<usize> = vec![1, 2, 3, 4, 5, 7, len / 2, len.saturating_sub(1)];
        if tier_full && *len <= 64 {
            lens = (1..*len).collect();
        }
        lens.retain(|l| *l >= 1 && *l < *len);
        lens.sort();
        lens.dedup();
        for l in lens {
            v.push(Script::ShortOnceAt { call: i, len: l });
        }
        v.push(Script::FailAt { call: i });
        v.push(Script::InterruptAt { call: i });
    }
    // calls beyond the unperturbed sequence never happen: the run must then succeed with canonical bytes
    v.push(Script::FailAt { call: n });
    v.push(Script::InterruptAt { call: n + 1 });
    // one short call and a later failure (indices in the perturbed sequence)
    for i in 0..n {
        if log[i].1 < 2 {
            continue;
        }
        for j in (i + 1)..=(n + 1) {
            v.push(Script::ShortThenFail { short_call: i, len: 1, fail_call: j });
        }
    }
    for k in [1usize, 2, 3, 5] {
        for j in [0usize, 1, 3, 7, 24, 25, 26, 27, 28, 30, 40, 60, 100] {
            v.push(Script::MaxKThenFail { k, fail_call: j });
            v.push(Script::MaxKInterrupt { k, int_call: j });
        }
    }
    // a short write followed by an interruption of the continuation call (and of the call after it)
    for i in 0..n {
        if log[i].1 < 2 {
            continue;
        }
        for l in [1usize, log[i].1 / 2, log[i].1 - 1] {
            if l >= 1 && l < log[i].1 {
                v.push(Script::ShortThenInterrupt { short_call: i, len: l, int_call: i + 1 });
                v.push(Script::ShortThenInterrupt { short_call: i, len: l, int_call: i + 2 });
            }
        }
    }
    for k in [1usize, 2, 3, 4, 5, 7, 8, 13, 16, 23, 24, 25, 27, 28, 29, 31, 32, 36, 37, 51, 64] {
        v.push(Script::VecMaxK(k));
    }
    // fixed-capacity sinks: every capacity around the section boundaries, and a spread of the others
    let total: usize = log.iter().map(|(_, l)| *l).sum();
    let mut caps: Vec<usize> = vec![0, 1, 23, 24, 25, total.saturating_sub(1), total, total + 1, total + 100];
    for (off, len) in log {
        caps.extend([off.saturating_sub(1), *off, off + 1, off + len / 2, off + len]);
    }
    if tier_full && total <= 4096 {
        caps.extend(0..=total);
    }
    caps.sort();
    caps.dedup();
    for c in caps {
        v.push(Script::Capacity(c));
    }
    // one-shot errors of every kind in the middle of chunked delivery (the sink recovers afterwards)
    for kind in 0..7u8 {
        for k in [1usize, 3, 16, usize::MAX] {
            for at in [0usize, 1, 2, 3, 5, n / 2, n.saturating_sub(1), n, n + 3] {
                v.push(Script::MaxKErrOnce { k, at, kind });
            }
        }
    }
    // interruptions are unbounded in number: bursts of 2..64 at every call index of the unperturbed sequence (and in
    // the middle of byte-wise delivery), and n interruptions in front of every call
    for burst in [2usize, 3, 7, 8, 9, 16, 17, 64] {
        for at in 0..=n {
            v.push(Script::InterruptBurst { k: usize::MAX, at, n: burst });
        }
        for k in [1usize, 3] {
            for at in [0usize, 1, 5, 23, 24, 25, 26, 27, 28, 29, 31, 33, 40, 47, 48, 49, 64, 100, 200] {
                v.push(Script::InterruptBurst { k, at, n: burst });
            }
        }
    }
    for every in [1usize, 2, 3, 8, 9] {
        for k in [1usize, 3, 16, usize::MAX] {
            v.push(Script::InterruptEvery { k, n: every });
        }
    }
    for kind in [0u8, 3, 4, 5] {
        for k in [1usize, usize::MAX] {
            for at in (0..=n).chain([24usize, 25, 27, 40]) {
                v.push(Script::InterruptThenFail { k, at, kind });
            }
        }
    }
    v
}

pub fn check_case(case: &MapCase, st: &mut Stats) -> Check {
    let bytes = case.bytes();
    let full = st.cases % 8 == 0;
    check_sinks(&bytes, case.hash(), full, usize::MAX, st)
}

/// Sized mappings: string tables around 8 KiB / 64 KiB / 1 MiB (buffering thresholds) and 255..257 classes
/// (one write call per class record).
#[derive(Clone, Debug, Serialize, Deserialize)]
pub struct SizedCase {
    pub classes: usize,
    pub name_len: usize,
}

pub fn check_sized(c: &SizedCase, st: &mut Stats) -> Check {
    let mut text = String::new();
    for i in 0..c.classes {
        text.push_str(&format!("com.example.{}{i} -> c{i}:\n    1:2:void m{i}(int):3:4 -> {}\n", "N".repeat(c.name_len), "o".repeat(c.name_len / 2 + 1)));
    }
    st.class("sized mapping (string table around a buffering threshold / hundreds of class records)");
    check_sinks(text.as_bytes(), crate::engine::fnv64(text.as_bytes()), false, 40, st)
}

pub fn check_sinks(bytes: &[u8], case_hash: u64, all_lengths: bool, max_pairs: usize, st: &mut Stats) -> Check {
    let canonical = write_cache(bytes)?;
    let canonical = canonical.bytes().to_vec();
    // record the unperturbed call sequence
    let mut rec = Sink::new(Script::All);
    let r = guarded(|| proguard::ProguardCache::write(&proguard::ProguardMapping::new(bytes), &mut rec)).map_err(|p| Fail::new("write-panic", p))?;
    if r.is_err() || rec.accepted != canonical {
        return Err(Fail::new("nondeterministic-write", "writing into an accept-everything sink differs from writing into a Vec"));
    }
    let header = layout::read_header(&canonical).ok_or_else(|| Fail::new("layout-decode", "short file"))?;
    let (c_at, m_at, b_at, s_at, _) = layout::offsets(&header);
    let pads: Vec<(usize, usize)> = vec![
        (c_at + layout::CLASS_LEN * header.num_classes as usize, m_at),
        (m_at + layout::MEMBER_LEN * header.num_members as usize, b_at),
        (b_at + layout::MEMBER_LEN * header.num_members_by_params as usize, s_at),
    ];
    let first_pad = pads.iter().filter(|(a, b)| b > a).map(|(a, _)| *a).min();
    for (i, (a, b)) in pads.iter().enumerate() {
        if b > a {
            st.class(["padding after classes", "padding after members", "padding after by-params"][i]);
        }
    }
    if first_pad.is_none() {
        st.class("mapping without any padding");
    }
    let first_pad_call = first_pad.and_then(|fp| rec.log.iter().position(|(off, _)| *off >= fp));
    let mut scripts = scripts_for(&rec.log, all_lengths);
    if max_pairs != usize::MAX {
        // large inputs: keep every single-fault script, thin out the quadratic short-then-fail combinations and the
        // byte-at-a-time sinks (k = 1, 2 stay)
        let n_calls = rec.log.len();
        let stride = (n_calls / max_pairs.max(1)).max(1);
        scripts.retain(|s| match s {
            Script::ShortThenFail { short_call, fail_call, .. } => short_call % stride == 0 && (fail_call % stride == 0 || *fail_call == short_call + 1 || *fail_call >= n_calls - 1),
            Script::MaxK(k) => *k <= 3 || *k == 16,
            Script::InterruptBurst { k, at, n } => (*k == usize::MAX && at % stride == 0 && matches!(*n, 2 | 8 | 9 | 64)) || (*k == 3 && *n == 9 && *at < 30),
            Script::InterruptThenFail { k, at, .. } => *k == usize::MAX && at % stride == 0,
            Script::InterruptEvery { k, n } => *k >= 16 && *n >= 8,
            _ => true,
        });
    }
    if st.want_sample() && first_pad.is_some() {
        st.sample(|| json!({"mapping": crate::engine::show_bytes(&bytes[..bytes.len().min(1500)]), "canonical_len": canonical.len(), "write_calls(offset,len)": rec.log, "padding_regions": pads, "sinks_enumerated": scripts.len(), "example_sinks": &scripts[..scripts.len().min(4)]}));
    }
    for (si, sc) in scripts.iter().enumerate() {
        st.evaluations += 1;
        let fault_call = match sc {
            Script::MaxK(k) => {
                if *k < 4 {
                    st.class("sink accepting < 4 bytes per call");
                }
                Some(0)
            }
            Script::ShortOnceAt { call, .. } | Script::FailAt { call } | Script::InterruptAt { call } => Some(*call),
            Script::ShortThenFail { fail_call, .. } => Some(*fail_call),
            Script::ShortThenInterrupt { int_call, .. } => Some(*int_call),
            Script::MaxKThenFail { .. } | Script::MaxKInterrupt { .. } | Script::VecMaxK(_) | Script::Capacity(_) | Script::MaxKErrOnce { .. } | Script::InterruptBurst { .. } | Script::InterruptEvery { .. } | Script::InterruptThenFail { .. } => Some(0),
            Script::All => None,
        };
        let in_padding = match (fault_call, first_pad_call) {
            (Some(f), Some(p)) => matches!(sc, Script::MaxK(_) | Script::MaxKThenFail { .. } | Script::MaxKInterrupt { .. } | Script::VecMaxK(_) | Script::Capacity(_) | Script::MaxKErrOnce { .. } | Script::InterruptBurst { .. } | Script::InterruptEvery { .. } | Script::InterruptThenFail { .. }) || f >= p,
            _ => false,
        };
        if in_padding {
            st.nontrivial(qhash(case_hash, b'S', &[&si.to_le_bytes()]));
            st.class("fault on or after the first padding call");
        } else {
            st.class("fault in the payload before any padding");
        }
        run_sink(bytes, &canonical, sc)?;
    }
    Ok(())
}

pub fn run(ctx: &Ctx) -> Report {
    let mut rep = Report::new(ID, "fault_enumeration", ctx);
    rep.rule = "Cases: grammar-generated mappings (padding present after classes / members / by-params in varying combinations, and absent). Canonical bytes = write into a Vec. Per mapping, sinks enumerated: accept <= k bytes per call for k=1..16; short exactly once at every call index i with shortened lengths {1,2,3,4,5,7,len/2,len-1} (all lengths for writes <= 64 bytes on every 8th mapping); fail with ErrorKind::Other at every call index; ErrorKind::Interrupted once at every call index; one short call followed by a failure at every later index; k-limited sinks with a failure or an interruption; a short write followed by ErrorKind::Interrupted on the continuation call; sinks that implement write_vectored themselves and accept at most k bytes across slice boundaries; fixed-capacity sinks that return Ok(0) once full, for every capacity around the section boundaries (all capacities for small files on every 8th mapping); one-shot errors of kind WouldBlock / TimedOut / Interrupted / Other / BrokenPipe / WriteZero / OutOfMemory during chunked delivery after which the sink recovers. Oracle: Ok => accepted bytes == canonical; non-retryable sink failure => Err; always: accepted bytes are a prefix of canonical; Err without any sink fault is a violation. evaluations = sink runs. Non-trivial = distinct (mapping, sink) where the fault lands on or after the first padding call.".into();
    rep.assumptions = vec!["sinks obey the std::io::Write contract; Ok(0) for a non-empty buffer is only returned by the fixed-capacity sinks once full, where it means that the sink cannot accept more".into(), "an Interrupted that surfaces as Err is tolerated (the statement only forbids success with wrong bytes)".into()];
    let n = ctx.cases(15_000, 600_000);
    rep.run_stage("ast", || map_case(&cfg()), n, check_case);
    let mut sized = Vec::new();
    for (classes, name_len) in [(1usize, 4000usize), (1, 5400), (1, 5500), (2, 2700), (3, 14_000), (1, 43_600), (1, 43_700), (255, 3), (256, 3), (257, 3), (40, 200)] {
        sized.push(SizedCase { classes, name_len });
    }
    if ctx.tier == crate::engine::Tier::Thorough {
        sized.push(SizedCase { classes: 1, name_len: 700_000 });
        sized.push(SizedCase { classes: 4097, name_len: 2 });
    }
    rep.run_enum("sized", &sized, check_sized);
    rep.stats.exhaustive.push("per mapping: every call index for short-once / fail / interrupt sinks, k=1..16".into());
    rep
}

#[derive(Serialize, Deserialize)]
pub struct SinkReplay {
    pub mapping_hex: String,
    pub script: Script,
}

pub fn replay(stage: &str, case: &Value) -> Check {
    let mut st = Stats::new();
    match stage {
        "sized" => check_sized(&serde_json::from_value(case.clone()).map_err(|e| Fail::new("harness-replay", e.to_string()))?, &mut st),
        "ast" => check_case(&serde_json::from_value(case.clone()).map_err(|e| Fail::new("harness-replay", e.to_string()))?, &mut st),
        _ => Err(Fail::new("harness-replay", format!("unknown stage {stage}"))),
    }
}

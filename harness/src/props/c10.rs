//! C10 — version-1 cache files mean the same to every release that accepts them.

use super::common::*;
use crate::api::proguard as cur;
use crate::api::proguard_pinned as pin;
use crate::api::AlignedBuf;
use crate::engine::{guarded, Check, Ctx, Fail, Report, Stats};
use crate::gen::mapping::GenCfg;
use crate::gen::universe::Universe;
use crate::transcript::{compare_retracers, Kinds};
use serde_json::{json, Value};

pub const ID: &str = "C10";

pub fn cfg() -> GenCfg {
    GenCfg { plain_sourcefile_headers: true, overloads: true, long: 2, ..GenCfg::default() }
}

enum Parsed<T> {
    Ok(T),
    WrongVersion,
}

fn parse_current<'a>(buf: &'a AlignedBuf, who: &str) -> Result<Parsed<cur::C<'a>>, Fail> {
    match guarded(|| proguard::ProguardCache::parse(buf.bytes())) {
        Err(p) => Err(Fail::new("parse-panic", format!("current reader panicked on a file written by {who}: {p}"))),
        Ok(Ok(c)) => Ok(Parsed::Ok(cur::C(c))),
        Ok(Err(e)) if e.kind() == proguard::CacheErrorKind::WrongVersion => Ok(Parsed::WrongVersion),
        Ok(Err(e)) => Err(Fail::new("rejected-not-version", format!("current reader rejects a file written by {who} with {:?} instead of the wrong-version error", e.kind()))),
    }
}

fn parse_pinned<'a>(buf: &'a AlignedBuf, who: &str) -> Result<Parsed<pin::C<'a>>, Fail> {
    match guarded(|| proguard_pinned::ProguardCache::parse(buf.bytes())) {
        Err(p) => Err(Fail::new("parse-panic", format!("pinned reader panicked on a file written by {who}: {p}"))),
        Ok(Ok(c)) => Ok(Parsed::Ok(pin::C(c))),
        Ok(Err(e)) if e.kind() == proguard_pinned::CacheErrorKind::WrongVersion => Ok(Parsed::WrongVersion),
        Ok(Err(e)) => Err(Fail::new("rejected-not-version", format!("pinned reader rejects a file written by {who} with {:?} instead of the wrong-version error", e.kind()))),
    }
}

pub fn check_bytes(bytes: &[u8], u: &Universe, key: u64, st: &mut Stats) -> Check {
    let case_hash = crate::engine::fnv64(bytes);
    let extra = derive_extra(u, key, 4, 0, 6);
    let by_pinned = write_cache_pinned(bytes)?;
    let by_current = write_cache(bytes)?;
    for (who, buf, tag) in [("the pinned release", &by_pinned, 1u64), ("the current tree", &by_current, 2u64)] {
        let c = parse_current(buf, who)?;
        let p = parse_pinned(buf, who)?;
        match (p, c) {
            (Parsed::Ok(p), Parsed::Ok(c)) => {
                st.class(if tag == 1 { "pinned-written buffer read by both readers" } else { "current-written buffer read by both readers" });
                no_panic("query", || compare_retracers(&p, &c, u, &extra, Kinds::decoding(), case_hash ^ tag, st)).map_err(|mut f| {
                    f.msg = format!("file written by {who}: {}", f.msg);
                    f.sig = format!("release-{}", f.sig);
                    f
                })?;
            }
            (Parsed::WrongVersion, _) if tag == 2 => st.class("current-written buffer rejected by the pinned reader with WrongVersion"),
            (_, Parsed::WrongVersion) if tag == 1 => st.class("pinned-written buffer rejected by the current reader with WrongVersion"),
            (Parsed::WrongVersion, _) => return Err(Fail::new("own-file-rejected", "pinned reader rejects a pinned-written file as wrong version")),
            (_, Parsed::WrongVersion) => return Err(Fail::new("own-file-rejected", "current reader rejects its own freshly written file as wrong version")),
        }
    }
    if by_pinned.bytes() == by_current.bytes() {
        st.class("both writers emit identical bytes");
    } else {
        st.class("writers emit different bytes (writer repairs since the pinned release)");
    }
    Ok(())
}

pub fn check_case(case: &MapCase, st: &mut Stats) -> Check {
    let bytes = case.bytes();
    let u = Universe::from_ast(&case.file, false);
    if st.want_sample() && case.file.n_methods() >= 3 {
        st.sample(|| case.sample());
    }
    check_bytes(&bytes, &u, case.key, st)
}

/// Names outside the representable domain (empty obfuscated / original names, dotted leftovers): both writers
/// still emit version-1 files for them, and the two readers must agree on those bytes. Numbers stay small: the
/// repaired line arithmetic (saturating instead of wrapping) is the one documented reader difference.
#[derive(Clone, Debug, serde::Serialize, serde::Deserialize)]
pub struct OddNames {
    pub map: MapCase,
    pub inject: Vec<(u16, u16, u8, u8, u8)>,
}

pub const ODD: &[&str] = &["", "a", "b", ".", "a.", ".a", "x y", "é", "<init>"];

pub fn odd_names_case() -> proptest::strategy::BoxedStrategy<OddNames> {
    use proptest::prelude::*;
    let c = GenCfg { max_blocks: 4, max_items: 6, long: 0, ..cfg() };
    (map_case(&c), proptest::collection::vec((any::<u16>(), any::<u16>(), 0u8..9, 0u8..9, 0u8..5), 1..6)).prop_map(|(map, inject)| OddNames { map, inject }).boxed()
}

pub fn check_odd(c: &OddNames, st: &mut Stats) -> Check {
    let mut f = c.map.file.clone();
    for (b, p, n1, n2, kind) in &c.inject {
        let (x, y) = (ODD[*n1 as usize % ODD.len()], ODD[*n2 as usize % ODD.len()]);
        let line = match kind % 5 {
            0 => format!("    void {x}() -> {y}"),
            1 => format!("    1:3:void {x}(int):5:7 -> {y}"),
            2 => format!("    int {x} -> {y}"),
            3 => format!("{x} -> {y}:"),
            _ => format!("    2:2:void q.{x}():9 -> {y}"),
        };
        if f.blocks.is_empty() {
            f.prelude.push(crate::gen::mapping::Item::Noise(line));
            continue;
        }
        let bi = (*b as usize * f.blocks.len()) >> 16;
        let items = &mut f.blocks[bi].items;
        let at = (*p as usize * (items.len() + 1)) >> 16;
        items.insert(at, crate::gen::mapping::Item::Noise(line));
    }
    let bytes = f.render(&c.map.render);
    // the universe must contain the odd names themselves
    let mut u = Universe::from_bytes(&bytes, false, 40, c.map.key);
    for o in ODD {
        if !u.known_methods.iter().any(|m| m == o) {
            u.other_methods.push(o.to_string());
        }
        if !u.known_classes.iter().any(|m| m == o) {
            u.other_classes.push(o.to_string());
        }
    }
    u.known_methods.extend(ODD.iter().map(|s| s.to_string()));
    u.known_methods.sort();
    u.known_methods.dedup();
    st.class("mapping with empty / odd names (outside the representable domain, still written as version 1)");
    if st.want_sample() {
        st.sample(|| json!({"mapping with odd names": crate::engine::show_bytes(&bytes)}));
    }
    check_bytes(&bytes, &u, c.map.key, st)
}

/// Zero-length names in every slot (sourceFile values included): whatever the current writer makes of them, the two
/// readers must agree on the bytes it wrote.
pub fn check_degenerate(case: &MapCase, st: &mut Stats) -> Check {
    let bytes = case.file.degenerate(case.key).render(&case.render);
    let mut u = Universe::from_bytes(&bytes, false, 40, case.key);
    for list in [&mut u.known_methods, &mut u.known_classes] {
        if !list.iter().any(|m| m.is_empty()) {
            list.push(String::new());
        }
    }
    st.class("mapping with zero-length names (degenerate variant)");
    if st.want_sample() && case.file.blocks.len() >= 2 {
        st.sample(|| json!({"degenerate mapping": crate::engine::show_bytes(&bytes[..bytes.len().min(800)])}));
    }
    check_bytes(&bytes, &u, case.key, st)
}

pub fn check_corpus(case: &super::c02::CorpusCase, st: &mut Stats) -> Check {
    let mut bytes = std::fs::read(&case.path).map_err(|e| Fail::new("harness-io", format!("{}: {e}", case.path)))?;
    if case.crlf {
        bytes = crate::gen::mutate::to_crlf(&bytes);
    }
    if !crate::gen::mutate::representable(&bytes) {
        st.class("corpus file outside the representable domain (skipped)");
        return Ok(());
    }
    let u = Universe::from_bytes(&bytes, false, case.max_classes, case.pick);
    st.sample(|| json!({"corpus file": case.path, "crlf": case.crlf, "classes sampled": u.known_classes.len()}));
    check_bytes(&bytes, &u, case.pick, st)
}

pub fn run(ctx: &Ctx) -> Report {
    let mut rep = Report::new(ID, "exploration", ctx);
    rep.rule = "Cases: grammar-generated mappings (representable domain), mappings with injected odd names, degenerate variants with zero-length names in every slot incl. sourceFile values, and corpus files. Per mapping two buffers (written by the frozen pinned 5.5.0 copy in /verif/pinned and by the current tree), each parsed by both readers. Oracle: a reader either rejects with WrongVersion or its transcript over the decoding queries of the universe (class, method, frame by line, frame by params, throwable, text trace, signature) equals the other reader's transcript on the same bytes. evaluations = single query comparisons. Non-trivial = distinct (buffer, query) with a non-empty answer from either reader.".into();
    rep.assumptions = vec![
        "'every release' is represented by two: the pinned snapshot f3fcb84 (frozen copy, compiled without overflow checks like a shipped build) and the working tree".into(),
        "the typed-trace API is not part of the transcript (composition of throwable and frame lookups; its handling of unmapped throwables is an API-level repair, not a change of what bytes mean)".into(),
    ];
    let n = ctx.cases(4000, 180_000);
    rep.run_stage("ast", || map_case(&cfg()), n, check_case);
    rep.run_stage("odd-names", odd_names_case, ctx.cases(3_000, 60_000), check_odd);
    let dcfg = GenCfg { max_blocks: 4, max_items: 8, long: 0, big_numbers: false, ..cfg() };
    rep.run_stage("degenerate", move || map_case(&dcfg), ctx.cases(3_000, 60_000), check_degenerate);
    let corpus = super::c02::corpus_cases(ctx);
    rep.run_enum("corpus", &corpus, check_corpus);
    super::scale::run(&mut rep, ctx, "C10");
    rep
}

pub fn replay(stage: &str, case: &Value) -> Check {
    let mut st = Stats::new();
    if stage == "scale" {
        return super::scale::replay(case);
    }
    match stage {
        "ast" => check_case(&serde_json::from_value(case.clone()).map_err(|e| Fail::new("harness-replay", e.to_string()))?, &mut st),
        "degenerate" => check_degenerate(&serde_json::from_value(case.clone()).map_err(|e| Fail::new("harness-replay", e.to_string()))?, &mut st),
        "odd-names" => check_odd(&serde_json::from_value(case.clone()).map_err(|e| Fail::new("harness-replay", e.to_string()))?, &mut st),
        "corpus" => check_corpus(&serde_json::from_value(case.clone()).map_err(|e| Fail::new("harness-replay", e.to_string()))?, &mut st),
        _ => Err(Fail::new("harness-replay", format!("unknown stage {stage}"))),
    }
}

//! Helpers shared by the property modules.

use crate::api::proguard as cur;
use crate::api::{AlignedBuf, TraceAst};
use crate::engine::{fnv64, guarded, sample_n, show_bytes, Fail};
use crate::gen::descriptor;
use crate::gen::mapping::{MapFile, Render};
use crate::gen::trace::{self, NamePool};
use crate::gen::universe::Universe;
use crate::transcript::Extra;
use serde::{Deserialize, Serialize};
use serde_json::{json, Value};

#[derive(Clone, Debug, Serialize, Deserialize)]
pub struct MapCase {
    pub file: MapFile,
    pub render: Render,
    /// drives derived, non-enumerated choices (extra queries, permutations)
    pub key: u64,
}

impl MapCase {
    pub fn bytes(&self) -> Vec<u8> {
        self.file.render(&self.render)
    }
    pub fn hash(&self) -> u64 {
        fnv64(&self.bytes())
    }
    pub fn sample(&self) -> Value {
        json!({"mapping": show_bytes(&self.bytes())})
    }
}

pub fn map_case(cfg: &crate::gen::mapping::GenCfg) -> proptest::strategy::BoxedStrategy<MapCase> {
    use proptest::prelude::*;
    (crate::gen::mapping::map_file(cfg), crate::gen::mapping::render_cfg(), any::<u64>())
        .prop_map(|(file, render, key)| MapCase { file, render, key })
        .boxed()
}

/// "Tall" profile case: few classes with hundreds of member lines (see gen::mapping::tall_file).
pub fn tall_case(cfg: &crate::gen::mapping::GenCfg) -> proptest::strategy::BoxedStrategy<MapCase> {
    use proptest::prelude::*;
    (crate::gen::mapping::tall_file(cfg, 400), crate::gen::mapping::render_cfg(), any::<u64>())
        .prop_map(|(file, render, key)| MapCase { file, render, key })
        .boxed()
}

/// Serialise a mapping with the current writer into an aligned buffer.
pub fn write_cache(bytes: &[u8]) -> Result<AlignedBuf, Fail> {
    let r = guarded(|| {
        let mapping = proguard::ProguardMapping::new(bytes);
        let mut out = Vec::new();
        proguard::ProguardCache::write(&mapping, &mut out).map(|_| out)
    });
    match r {
        Err(p) => Err(Fail::new("write-panic", format!("ProguardCache::write panicked: {p}"))),
        Ok(Err(e)) => Err(Fail::new("write-error", format!("ProguardCache::write into a Vec failed: {e}"))),
        Ok(Ok(v)) => Ok(AlignedBuf::new(&v)),
    }
}

pub fn write_cache_pinned(bytes: &[u8]) -> Result<AlignedBuf, Fail> {
    let r = guarded(|| {
        let mapping = proguard_pinned::ProguardMapping::new(bytes);
        let mut out = Vec::new();
        proguard_pinned::ProguardCache::write(&mapping, &mut out).map(|_| out)
    });
    match r {
        Err(p) => Err(Fail::new("pinned-write-panic", format!("pinned ProguardCache::write panicked: {p}"))),
        Ok(Err(e)) => Err(Fail::new("pinned-write-error", format!("pinned ProguardCache::write failed: {e}"))),
        Ok(Ok(v)) => Ok(AlignedBuf::new(&v)),
    }
}

pub fn parse_cache<'a>(buf: &'a AlignedBuf) -> Result<cur::C<'a>, Fail> {
    match guarded(|| proguard::ProguardCache::parse(buf.bytes())) {
        Err(p) => Err(Fail::new("parse-panic", format!("ProguardCache::parse panicked: {p}"))),
        Ok(Err(e)) => Err(Fail::new("parse-error", format!("ProguardCache::parse rejected a freshly written cache: {e}"))),
        Ok(Ok(c)) => Ok(cur::C(c)),
    }
}

pub fn mapper<'a>(bytes: &'a [u8], params: bool) -> Result<cur::M<'a>, Fail> {
    match guarded(|| {
        let mapping = proguard::ProguardMapping::new(bytes);
        if params {
            proguard::ProguardMapper::new_with_param_mapping(mapping, true)
        } else {
            proguard::ProguardMapper::new(mapping)
        }
    }) {
        Err(p) => Err(Fail::new("mapper-panic", format!("ProguardMapper construction panicked: {p}"))),
        Ok(m) => Ok(cur::M(m, "")),
    }
}

/// Every way of constructing a mapper from the same bytes: `new`, `new_with_param_mapping(_, true|false)` and — when the
/// bytes are valid UTF-8 — the `From<&str>` / `From<(&str, bool)>` convenience constructors. All of them must answer
/// alike (by-params answers only for those built with the parameter index).
pub fn mapper_variants<'a>(bytes: &'a [u8]) -> Result<Vec<(cur::M<'a>, bool)>, Fail> {
    let r = guarded(|| {
        let mut v: Vec<(cur::M<'a>, bool)> = Vec::new();
        v.push((cur::M(proguard::ProguardMapper::new(proguard::ProguardMapping::new(bytes)), "mapper"), false));
        v.push((cur::M(proguard::ProguardMapper::new_with_param_mapping(proguard::ProguardMapping::new(bytes), true), "mapper(new_with_param_mapping true)"), true));
        v.push((cur::M(proguard::ProguardMapper::new_with_param_mapping(proguard::ProguardMapping::new(bytes), false), "mapper(new_with_param_mapping false)"), false));
        if let Ok(text) = std::str::from_utf8(bytes) {
            v.push((cur::M(proguard::ProguardMapper::from(text), "mapper(From<&str>)"), false));
            v.push((cur::M(proguard::ProguardMapper::from((text, true)), "mapper(From<(&str, true)>)"), true));
            v.push((cur::M(proguard::ProguardMapper::from((text, false)), "mapper(From<(&str, false)>)"), false));
        }
        v
    });
    r.map_err(|p| Fail::new("mapper-panic", format!("ProguardMapper construction panicked: {p}")))
}

/// Run a closure that queries the library; a panic (incl. overflow) becomes a failure with its location.
pub fn no_panic<T>(what: &str, f: impl FnOnce() -> Result<T, Fail>) -> Result<T, Fail> {
    match guarded(f) {
        Ok(r) => r,
        Err(p) => Err(Fail::new("query-panic", format!("{what}: {p}"))),
    }
}

pub fn name_pool(u: &Universe) -> NamePool {
    let mut classes: Vec<String> = u.known_classes.clone();
    classes.extend(u.other_classes.iter().take(6).cloned());
    NamePool { classes, methods: u.known_methods.clone(), lines: u.lines.iter().copied().filter(|l| *l > 66).take(30).collect(), hits: vec![] }
}

/// Name pool with (class, method, line) triples that resolve in this mapping.
pub fn name_pool_for(file: &MapFile, u: &Universe) -> NamePool {
    let mut p = name_pool(u);
    for b in &file.blocks {
        for it in &b.items {
            if let crate::gen::mapping::Item::Method(m) = it {
                let line = match m.usable() {
                    Some((s, e)) if s <= e => s + (e - s) / 2,
                    Some((s, _)) => s,
                    None => 0,
                };
                if p.hits.len() < 64 {
                    p.hits.push((b.obf.clone(), m.obf.clone(), line));
                }
            }
        }
    }
    p
}

/// Derived extra queries for a case (deterministic function of the universe and `key`).
pub fn derive_extra(u: &Universe, key: u64, n_text: usize, n_typed: usize, n_sig: usize) -> Extra {
    let pool = name_pool(u);
    let mut throwables: Vec<(String, Option<String>)> = Vec::new();
    for (c, _) in u.all_classes() {
        throwables.push((c.to_string(), None));
        throwables.push((c.to_string(), Some("Crash: x".to_string())));
    }
    let texts: Vec<String> = sample_n(&trace::text_trace(&pool, 14), key ^ 0x7e47, n_text)
        .into_iter()
        .map(|t| t.render())
        .collect();
    let typed: Vec<TraceAst> = sample_n(&trace::trace(&pool, 5, 3), key ^ 0x7e48, n_typed);
    let sigs: Vec<String> = sample_n(&descriptor::desc(&u.known_classes), key ^ 0x7e49, n_sig)
        .into_iter()
        .map(|d| d.encode())
        .collect();
    Extra { throwables, texts, typed, sigs }
}

// ---------------------------------------------------------------------------------------------
// corpus files through the strict recogniser (model-based checks on real-world files)

#[derive(Clone, Debug, Serialize, Deserialize)]
pub struct CorpusAstCase {
    pub path: String,
    pub crlf: bool,
    pub pick: u64,
    pub max_classes: usize,
}

/// Universe restricted to a sample of the file's classes (real-world files have thousands).
pub fn sampled_universe(file: &MapFile, max_classes: usize, pick: u64) -> Universe {
    use std::collections::BTreeSet;
    let n = file.blocks.len();
    let stride = (n / max_classes.max(1)).max(1);
    let offset = (pick as usize) % stride;
    let mut oc = BTreeSet::new();
    let mut rc = BTreeSet::new();
    let mut om = BTreeSet::new();
    let mut rm = BTreeSet::new();
    let mut ps = BTreeSet::new();
    let mut ranges = Vec::new();
    for (i, b) in file.blocks.iter().enumerate() {
        if i % stride != offset {
            continue;
        }
        oc.insert(b.obf.clone());
        rc.insert(b.orig.clone());
        for it in &b.items {
            if let crate::gen::mapping::Item::Method(m) = it {
                if om.len() < 60 {
                    om.insert(m.obf.clone());
                }
                if rm.len() < 30 {
                    rm.insert(m.oname.clone());
                }
                if ps.len() < 25 {
                    ps.insert(m.args.clone());
                }
                if let Some(r) = m.range {
                    if ranges.len() < 150 {
                        ranges.push(r);
                    }
                }
            }
        }
    }
    Universe::from_names(&oc, &rc, &om, &rm, &ps, &ranges, false)
}

pub fn corpus_ast_cases(quick_classes: usize, thorough_classes: usize, reps: u64, ctx: &crate::engine::Ctx) -> Vec<CorpusAstCase> {
    let mut out = Vec::new();
    for p in super::c02::corpus_files() {
        for crlf in [false, true] {
            for r in 0..ctx.tier.pick(1, reps) {
                out.push(CorpusAstCase { path: p.clone(), crlf, pick: ctx.seed.wrapping_add(r * 7919), max_classes: ctx.tier.pick(quick_classes, thorough_classes) });
            }
        }
    }
    out
}

/// Load a corpus file and convert it with the strict recogniser; `None` = some line is not classified or the file
/// leaves the representable domain (no model-based claim is made then).
pub fn load_corpus_ast(c: &CorpusAstCase) -> Result<Option<(Vec<u8>, MapFile)>, Fail> {
    let mut bytes = std::fs::read(&c.path).map_err(|e| Fail::new("harness-io", format!("{}: {e}", c.path)))?;
    if c.crlf {
        bytes = crate::gen::mutate::to_crlf(&bytes);
    }
    let Some(ast) = crate::model::lineparse::to_ast(&bytes) else {
        return Ok(None);
    };
    // representable domain, decided on the AST (independent of the crate's parser)
    let ok = ast.blocks.iter().all(|b| {
        b.items.iter().all(|i| match i {
            crate::gen::mapping::Item::Method(m) => {
                let nums: Vec<u64> = m.range.iter().flat_map(|(a, b)| [*a, *b]).chain(match m.olines {
                    crate::gen::mapping::OLines::None => vec![],
                    crate::gen::mapping::OLines::S(a) => vec![a],
                    crate::gen::mapping::OLines::SE(a, b) => vec![a, b],
                }).collect();
                nums.iter().all(|n| *n < crate::gen::mapping::MAX_REPR + 1)
            }
            crate::gen::mapping::Item::SourceFile(n) => !n.is_empty(),
            crate::gen::mapping::Item::Header { key, value } => !(key.trim() == "sourceFile" && value.as_deref().map_or(false, |v| v.trim().is_empty())),
            _ => true,
        })
    });
    if !ok {
        return Ok(None);
    }
    Ok(Some((bytes, ast)))
}


/// Objects obtained from `Default::default()` are objects over the empty input: a `ProguardMapping::default()` is a
/// mapping of zero bytes and must be indistinguishable from `ProguardMapping::new(b"")` through every accessor
/// (records, metadata, uuid, written cache, clone, section); default iterators yield nothing.
pub fn check_default_objects(_unit: &u8, st: &mut crate::engine::Stats) -> crate::engine::Check {
    use crate::engine::{guarded, Fail};
    st.evaluations += 1;
    st.nontrivial(0xdefa);
    st.class("objects from Default::default() against the empty input");
    let r = guarded(|| -> crate::engine::Check {
        let d = proguard::ProguardMapping::default();
        let e = proguard::ProguardMapping::new(b"");
        let describe = |m: &proguard::ProguardMapping| {
            let s = m.summary();
            let mut out = Vec::new();
            let w = proguard::ProguardCache::write(m, &mut out).map_err(|e| e.to_string());
            format!(
                "records={} has_line_info={} is_valid={} classes={} methods={} compiler={:?} version={:?} min_api={:?} uuid={} write={:?} cache={}",
                m.iter().take(8).count(),
                m.has_line_info(),
                m.is_valid(),
                s.class_count(),
                s.method_count(),
                s.compiler(),
                s.compiler_version(),
                s.min_api(),
                m.uuid(),
                w,
                crate::engine::hex(&out)
            )
        };
        let want = describe(&e);
        for (what, got) in [("ProguardMapping::default()", describe(&d)), ("ProguardMapping::default().clone()", describe(&d.clone())), ("ProguardMapping::default().section(0..0)", describe(&d.section(0..0))), ("ProguardMapping::new(b\"\").section(0..0)", describe(&e.section(0..0)))] {
            if got != want {
                return Err(Fail::new("default-object", format!("{what} answers {got}, ProguardMapping::new(b\"\") answers {want}")));
            }
        }
        let independent = crate::model::sha1::mapping_uuid(b"");
        if d.uuid().to_string() != independent {
            return Err(Fail::new("default-object", format!("ProguardMapping::default().uuid() = {}, the id of the empty input is {independent}", d.uuid())));
        }
        let n = proguard::ProguardRecordIter::default().take(8).count();
        if n != 0 {
            return Err(Fail::new("default-object", format!("ProguardRecordIter::default() yields {n}+ items")));
        }
        Ok(())
    });
    match r {
        Ok(c) => c,
        Err(p) => Err(Fail::new("default-object", format!("a default object panicked: {p}"))),
    }
}

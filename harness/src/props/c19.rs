//! C19 — file-level metadata answers equal a fold over the complete record stream.

use crate::engine::{fnv64, guarded, hex, show_bytes, unhex, Check, Ctx, Fail, Report, Stats};
use proptest::collection::vec;
use proptest::prelude::*;
use proptest::sample::select;
use serde::{Deserialize, Serialize};
use serde_json::{json, Value};

pub const ID: &str = "C19";

#[derive(Clone, Debug, Serialize, Deserialize, PartialEq, Eq)]
pub enum L {
    Class,
    MethodMapped,
    /// method without usable range: 0 = no range, 1 = `0:0:`, 2 = `0:5:`
    MethodUnmapped(u8),
    Field,
    /// key index, value index (into HEADER_KEYS / HEADER_VALUES; value idx 0 = no value)
    Header(u8, u8),
    /// error line
    Noise(u8),
    Blank,
    /// error line of `kib` KiB
    LongNoise(u16),
    /// look-alike header (`# pg_map_id: xxxx…`) of `kib` KiB
    LongHeader(u16),
}

pub const HEADER_KEYS: &[&str] = &["compiler", "compiler_version", "min_api", "pg_map_id", "min_apix", "Compiler", "COMPILER_VERSION", "Min_Api", "compiler-version", "minapi", "compiler_versio", "xcompiler"];
/// (text, parsed as u32)
pub const HEADER_VALUES: &[(&str, Option<u32>)] = &[
    ("", None), // index 0 = header without value at all
    ("R8", None),
    ("15", Some(15)),
    ("2.0.74", None),
    ("abc", None),
    ("4294967296", None),
    ("4294967295", Some(u32::MAX)),
    ("-1", None),
    ("0", Some(0)),
    ("33", Some(33)),
    ("D8", None),
    ("1 5", None),
];
pub const NOISE: &[&str] = &[
    "garbage", "a->b:", "    void missingArrow()", "com.example.Foo -> a", "  two spaces -> x", "    1:void m() -> x", "\u{feff}x",
    // lines of blanks only: not empty, so they are items (errors) of the stream and count towards "the first 50"
    " ", "    ", "\t", "  \t ", "\u{a0}",
];

#[derive(Clone, Debug, Serialize, Deserialize)]
pub struct Seg {
    pub line: L,
    pub reps: u32,
}

#[derive(Clone, Debug, Serialize, Deserialize)]
pub struct MetaCase {
    pub segs: Vec<Seg>,
    pub final_eol: bool,
    pub crlf: bool,
}

fn line_text(l: &L, i: usize) -> String {
    match l {
        L::Class => format!("com.example.C{i} -> c{i}:"),
        L::MethodMapped => format!("    {}:{}:void m{i}(int):{} -> a", i % 50 + 1, i % 50 + 3, i % 7),
        L::MethodUnmapped(0) => format!("    void u{i}() -> b"),
        L::MethodUnmapped(1) => format!("    0:0:void u{i}() -> b"),
        L::MethodUnmapped(_) => format!("    0:5:void u{i}():3:4 -> b"),
        L::Field => format!("    int f{i} -> c"),
        L::Header(k, 0) => format!("# {}", HEADER_KEYS[*k as usize % HEADER_KEYS.len()]),
        L::Header(k, v) => format!("# {}: {}", HEADER_KEYS[*k as usize % HEADER_KEYS.len()], HEADER_VALUES[*v as usize % HEADER_VALUES.len()].0),
        L::Noise(n) => NOISE[*n as usize % NOISE.len()].to_string(),
        L::LongNoise(k) => format!("garbage{}", "z".repeat(*k as usize * 1024)),
        L::LongHeader(k) => format!("# pg_map_id: {}", "h".repeat(*k as usize * 1024)),
        L::Blank => String::new(),
    }
}

impl MetaCase {
    pub fn lines(&self) -> Vec<L> {
        let mut out = Vec::new();
        for s in &self.segs {
            for _ in 0..s.reps {
                out.push(s.line.clone());
                if out.len() >= 90_000 {
                    return out;
                }
            }
        }
        out
    }
    pub fn bytes(&self) -> Vec<u8> {
        let ls = self.lines();
        let mut out = String::new();
        let eol = if self.crlf { "\r\n" } else { "\n" };
        for (i, l) in ls.iter().enumerate() {
            out.push_str(&line_text(l, i));
            if i + 1 < ls.len() || self.final_eol {
                out.push_str(eol);
            }
        }
        out.into_bytes()
    }
}

#[derive(Clone, Debug, PartialEq, Eq, Default)]
pub struct Meta {
    pub has_line_info: bool,
    pub class_count: usize,
    pub method_count: usize,
    pub compiler: Option<String>,
    pub compiler_version: Option<String>,
    pub min_api: Option<u32>,
    pub is_valid: bool,
}

/// truth computed from the generated line list (independent of the crate)
pub fn truth(ls: &[L]) -> (Meta, usize) {
    let mut m = Meta::default();
    let mut item = 0usize;
    let mut seen_class = false;
    let mut deciding = 0usize;
    for l in ls {
        if matches!(l, L::Blank) {
            continue;
        }
        item += 1;
        match l {
            L::Class => {
                m.class_count += 1;
                if item <= 50 {
                    seen_class = true;
                }
            }
            L::MethodMapped | L::MethodUnmapped(_) | L::Field => {
                if !matches!(l, L::Field) {
                    m.method_count += 1;
                }
                if matches!(l, L::MethodMapped) && !m.has_line_info {
                    m.has_line_info = true;
                    deciding = deciding.max(item);
                }
                if item <= 50 && seen_class && !m.is_valid {
                    m.is_valid = true;
                }
            }
            L::Header(k, v) => {
                let key = HEADER_KEYS[*k as usize % HEADER_KEYS.len()];
                let val = if *v == 0 { None } else { Some(HEADER_VALUES[*v as usize % HEADER_VALUES.len()]) };
                match key {
                    "compiler" => m.compiler = val.map(|v| v.0.to_string()),
                    "compiler_version" => m.compiler_version = val.map(|v| v.0.to_string()),
                    "min_api" => m.min_api = val.and_then(|v| v.1),
                    _ => {}
                }
                if matches!(key, "compiler" | "compiler_version" | "min_api") {
                    deciding = deciding.max(item);
                }
            }
            _ => {}
        }
    }
    (m, deciding)
}

/// the property's fold over the public record iterator
pub fn fold(bytes: &[u8]) -> Meta {
    let mut m = Meta::default();
    let mapping = proguard::ProguardMapping::new(bytes);
    let mut seen_class = false;
    for (i, rec) in mapping.iter().enumerate() {
        use proguard::ProguardRecord as P;
        match rec {
            Ok(P::Class { .. }) => {
                m.class_count += 1;
                if i < 50 {
                    seen_class = true;
                }
            }
            Ok(P::Method { line_mapping, .. }) => {
                m.method_count += 1;
                if line_mapping.is_some() {
                    m.has_line_info = true;
                }
                if i < 50 && seen_class {
                    m.is_valid = true;
                }
            }
            Ok(P::Field { .. }) => {
                if i < 50 && seen_class {
                    m.is_valid = true;
                }
            }
            Ok(P::Header { key, value }) => match key {
                "compiler" => m.compiler = value.map(|s| s.to_string()),
                "compiler_version" => m.compiler_version = value.map(|s| s.to_string()),
                "min_api" => m.min_api = value.and_then(|v| v.parse::<u32>().ok()),
                _ => {}
            },
            Err(_) => {}
        }
    }
    m
}

pub fn observed(bytes: &[u8]) -> Result<Meta, String> {
    guarded(|| {
        let mapping = proguard::ProguardMapping::new(bytes);
        let s = mapping.summary();
        Meta {
            has_line_info: mapping.has_line_info(),
            class_count: s.class_count(),
            method_count: s.method_count(),
            compiler: s.compiler().map(|s| s.to_string()),
            compiler_version: s.compiler_version().map(|s| s.to_string()),
            min_api: s.min_api(),
            is_valid: mapping.is_valid(),
        }
    })
}

fn diff(a: &Meta, b: &Meta) -> String {
    let mut v = Vec::new();
    if a.has_line_info != b.has_line_info {
        v.push(format!("has_line_info {} vs {}", a.has_line_info, b.has_line_info));
    }
    if a.is_valid != b.is_valid {
        v.push(format!("is_valid {} vs {}", a.is_valid, b.is_valid));
    }
    if a.class_count != b.class_count {
        v.push(format!("class_count {} vs {}", a.class_count, b.class_count));
    }
    if a.method_count != b.method_count {
        v.push(format!("method_count {} vs {}", a.method_count, b.method_count));
    }
    if a.compiler != b.compiler {
        v.push(format!("compiler {:?} vs {:?}", a.compiler, b.compiler));
    }
    if a.compiler_version != b.compiler_version {
        v.push(format!("compiler_version {:?} vs {:?}", a.compiler_version, b.compiler_version));
    }
    if a.min_api != b.min_api {
        v.push(format!("min_api {:?} vs {:?}", a.min_api, b.min_api));
    }
    v.join("; ")
}

pub fn check_case(c: &MetaCase, st: &mut Stats) -> Check {
    let ls = c.lines();
    let bytes = c.bytes();
    st.evaluations += 1;
    let (want, deciding) = truth(&ls);
    let got = observed(&bytes).map_err(|p| Fail::new("meta-panic", p))?;
    let folded = guarded(|| fold(&bytes)).map_err(|p| Fail::new("meta-panic", p))?;
    if deciding > 10 {
        st.nontrivial(fnv64(&bytes));
    }
    let n_items = ls.iter().filter(|l| !matches!(l, L::Blank)).count();
    if want.has_line_info && !c.final_eol && matches!(ls.last(), Some(L::MethodMapped)) && ls.iter().filter(|l| matches!(l, L::MethodMapped)).count() == 1 {
        st.class("only line-mapped method is the last line without terminator");
    }
    if deciding >= 1000 {
        st.class("deciding record after >= 1000 items");
    }
    if (49..=52).contains(&ls.iter().filter(|l| !matches!(l, L::Blank)).position(|l| matches!(l, L::Class)).unwrap_or(0)) {
        st.class("first class line at item index 49..52");
    }
    let hdrs = ls.iter().filter(|l| matches!(l, L::Header(k, _) if *k < 3)).count();
    if hdrs >= 2 {
        st.class("repeated metadata headers");
    }
    if st.want_sample() && n_items > 5 && n_items < 40 {
        st.sample(|| json!({"file": show_bytes(&bytes), "expected": format!("{want:?}")}));
    }
    if got != want {
        return Err(Fail::new("meta-vs-ast", format!("metadata differs from the truth of the generated file ({} lines): {}", ls.len(), diff(&got, &want))).with(json!({"observed": format!("{got:?}"), "expected": format!("{want:?}")})));
    }
    if got != folded {
        return Err(Fail::new("meta-vs-fold", format!("metadata differs from the fold over iter(): {}", diff(&got, &folded))));
    }
    // a section taken after the parent was asked is the mapping of exactly its own bytes
    if bytes.len() < 60_000 {
        check_sections(&ls, c, &bytes, st)?;
    }
    Ok(())
}

/// Sections cut at line starts: metadata of `parent.section(r)` (parent already queried) must equal the truth of
/// the lines inside the range.
pub fn check_sections(ls: &[L], c: &MetaCase, bytes: &[u8], st: &mut Stats) -> Check {
    // byte offset of every line start
    let eol = if c.crlf { 2 } else { 1 };
    let mut starts = vec![0usize];
    let mut at = 0usize;
    for (i, l) in ls.iter().enumerate() {
        at += line_text(l, i).len();
        if i + 1 < ls.len() || c.final_eol {
            at += eol;
        }
        starts.push(at.min(bytes.len()));
    }
    let n = ls.len();
    if n < 2 {
        return Ok(());
    }
    let parent = proguard::ProguardMapping::new(bytes);
    let _ = guarded(|| (parent.has_line_info(), parent.is_valid(), parent.summary().class_count()));
    let picks = [(0usize, n / 2), (n / 2, n), (1, n), (0, n - 1), (n / 3, 2 * n / 3), (n - 1, n), (0, 1)];
    for (a, b) in picks {
        if a >= b {
            continue;
        }
        st.evaluations += 1;
        let (want, _) = truth(&ls[a..b]);
        let range = starts[a]..starts[b];
        let got = guarded(|| {
            let sec = parent.section(range.clone());
            let s = sec.summary();
            Meta {
                has_line_info: sec.has_line_info(),
                class_count: s.class_count(),
                method_count: s.method_count(),
                compiler: s.compiler().map(|x| x.to_string()),
                compiler_version: s.compiler_version().map(|x| x.to_string()),
                min_api: s.min_api(),
                is_valid: sec.is_valid(),
            }
        })
        .map_err(|p| Fail::new("meta-panic", p))?;
        // line texts embed the absolute line index; class/method counts and flags do not depend on it
        if got != want {
            return Err(Fail::new("section-meta", format!("section of lines {a}..{b} (bytes {range:?}) taken after the parent was queried: {}", diff(&got, &want))).with(json!({"lines": [a, b]})));
        }
        st.class("section() metadata after the parent was queried");
    }
    Ok(())
}

pub fn check_raw(bytes: &[u8], st: &mut Stats) -> Check {
    st.evaluations += 1;
    let got = observed(bytes).map_err(|p| Fail::new("meta-panic", p))?;
    let folded = guarded(|| fold(bytes)).map_err(|p| Fail::new("meta-panic", p))?;
    if folded.class_count + folded.method_count > 0 {
        st.class("raw input with records");
    }
    if got != folded {
        return Err(Fail::new("meta-vs-fold", format!("metadata differs from the fold over iter() on {:?}: {}", show_bytes(&bytes[..bytes.len().min(300)]), diff(&got, &folded))).with(json!({"hex": hex(bytes)})));
    }
    Ok(())
}

/// Fold-only stage: inputs whose *truth from the line list* would need a model of the parser, but for which the
/// property's own rule (the fold over `iter()`) is exact:
///  * records that start in the middle of a physical line (some line terminators deleted: a class record ends at its
///    colon and a sourceFile header at `"}`, so the next record can follow on the same line);
///  * metadata header values in the numeric grey zone (`+21`, `021`, ` 21 `, non-ASCII digits, 2^32 …): the rule is
///    "u32 parse of the last min_api header's value", whatever that parse accepts.
#[derive(Clone, Debug, Serialize, Deserialize)]
pub struct JoinedCase {
    pub base: MetaCase,
    /// which line terminators to delete (bit i = terminator after line i)
    pub drop: u64,
    /// (line index fraction, key index, value index) metadata headers with grey-zone values inserted as raw lines
    pub headers: Vec<(u16, u8, u8)>,
}

pub const GREY_VALUES: &[&str] = &[
    "+21", "+0", "-0", "021", "0021", " 21", "21 ", "\t21", "2_1", "0x15", "21.0", "2e1", "\u{661}\u{662}", "\u{ff12}\u{ff11}", "4294967295", "4294967296", "+4294967295", "+4294967296", "", " ", "+", "-",
    "21:", "21 # x", "٢١", "1 5", "-00", "-000", "+00", "-0 ", "0", "00",
];

impl JoinedCase {
    pub fn bytes(&self) -> Vec<u8> {
        let ls = self.base.lines();
        let mut texts: Vec<String> = ls.iter().enumerate().map(|(i, l)| line_text(l, i)).collect();
        for (at, k, v) in &self.headers {
            let key = ["min_api", "compiler", "compiler_version"][*k as usize % 3];
            let val = GREY_VALUES[*v as usize % GREY_VALUES.len()];
            let pos = ((*at as usize) * (texts.len() + 1)) >> 16;
            texts.insert(pos, format!("# {key}:{}{val}", if *v % 2 == 0 { " " } else { "" }));
        }
        let eol = if self.base.crlf { "\r\n" } else { "\n" };
        let mut out = String::new();
        for (i, t) in texts.iter().enumerate() {
            out.push_str(t);
            let last = i + 1 == texts.len();
            let dropped = (self.drop >> (i % 64)) & 1 == 1;
            if (!last && !dropped) || (last && self.base.final_eol) {
                out.push_str(eol);
            }
        }
        out.into_bytes()
    }
}

pub fn joined_case() -> BoxedStrategy<JoinedCase> {
    let small = (vec(seg().prop_map(|mut s| {
        s.reps = s.reps.min(3);
        s
    }), 1..10), any::<bool>(), prop::bool::weighted(0.25))
        .prop_map(|(segs, final_eol, crlf)| MetaCase { segs, final_eol, crlf });
    (small, prop_oneof![3 => Just(0u64), 4 => any::<u64>().prop_map(|x| x & (x >> 1) & (x >> 2)), 2 => any::<u64>()], vec((any::<u16>(), 0u8..3, 0u8..GREY_VALUES.len() as u8), 0..4))
        .prop_map(|(base, drop, headers)| JoinedCase { base, drop, headers })
        .boxed()
}

pub fn check_joined(c: &JoinedCase, st: &mut Stats) -> Check {
    let b = c.bytes();
    if c.drop != 0 {
        st.class("records starting in the middle of a physical line (terminators deleted)");
    }
    if !c.headers.is_empty() {
        st.class("metadata header with a grey-zone numeric value");
    }
    if st.want_sample() && c.drop != 0 && !c.headers.is_empty() && b.len() < 400 {
        st.sample(|| json!({"joined file": show_bytes(&b)}));
    }
    st.nontrivial(fnv64(&b));
    check_raw(&b, st)
}

pub fn seg() -> impl Strategy<Value = Seg> {
    let line = prop_oneof![
        4 => Just(L::Class),
        3 => Just(L::MethodMapped),
        6 => (0u8..3).prop_map(L::MethodUnmapped),
        2 => Just(L::Field),
        5 => (0u8..HEADER_KEYS.len() as u8, 0u8..HEADER_VALUES.len() as u8).prop_map(|(k, v)| L::Header(k, v)),
        4 => (0u8..NOISE.len() as u8).prop_map(L::Noise),
        1 => Just(L::Blank),
    ];
    let reps = prop_oneof![
        70 => Just(1u32),
        8 => 2u32..6,
        10 => select(&[47u32, 48, 49, 50, 51, 52][..]),
        3 => Just(1000u32),
        2 => select(&[4095u32, 4096, 4097][..]),
        1 => Just(10000u32),
    ];
    (line, reps).prop_map(|(line, reps)| Seg { line, reps })
}

/// deterministic long files: the deciding record after 65535 / 65536 / 65537 / 70000 negatives
pub fn long_cases() -> Vec<MetaCase> {
    let mut v = Vec::new();
    // the first 50 items extend beyond 1 MiB (items are counted, not bytes)
    for crlf in [false, true] {
        v.push(MetaCase { segs: vec![Seg { line: L::LongNoise(24), reps: 48 }, Seg { line: L::Class, reps: 1 }, Seg { line: L::Field, reps: 1 }], final_eol: true, crlf });
        v.push(MetaCase { segs: vec![Seg { line: L::LongNoise(24), reps: 49 }, Seg { line: L::Class, reps: 1 }, Seg { line: L::Field, reps: 1 }], final_eol: true, crlf });
        v.push(MetaCase { segs: vec![Seg { line: L::LongHeader(1100), reps: 1 }, Seg { line: L::Class, reps: 1 }, Seg { line: L::MethodMapped, reps: 1 }], final_eol: false, crlf });
        v.push(MetaCase { segs: vec![Seg { line: L::Class, reps: 1 }, Seg { line: L::LongHeader(2100), reps: 1 }, Seg { line: L::Header(2, 2), reps: 1 }, Seg { line: L::MethodUnmapped(1), reps: 1 }], final_eol: true, crlf });
        v.push(MetaCase { segs: vec![Seg { line: L::LongHeader(64), reps: 20 }, Seg { line: L::Class, reps: 1 }, Seg { line: L::MethodMapped, reps: 1 }], final_eol: true, crlf });
    }
    // size windows: the only line-mapped method (and the last metadata header) sits behind 17 / 33 / 65 MiB
    for (mib, crlf) in [(17u32, false), (33, false), (33, true), (65, false)] {
        v.push(MetaCase { segs: vec![Seg { line: L::Class, reps: 1 }, Seg { line: L::LongHeader(1024), reps: mib }, Seg { line: L::Header(2, 2), reps: 1 }, Seg { line: L::MethodMapped, reps: 1 }], final_eol: false, crlf });
    }
    // large files whose metadata headers lie far apart (more than 16 / 32 MiB): valued first and valueless /
    // malformed / look-alike last, and the other way round; the filler is a few hundred 64 KiB lines
    for (k, early, late) in [(0u8, 1u8, 0u8), (1, 3, 0), (2, 2, 4), (2, 2, 5), (2, 9, 0), (0, 0, 10), (2, 4, 9), (1, 0, 3)] {
        for (filler, crlf) in [(280u32, false), (530, true)] {
            v.push(MetaCase {
                segs: vec![
                    Seg { line: L::Class, reps: 1 },
                    Seg { line: L::Header(k, early), reps: 1 },
                    Seg { line: L::LongHeader(64), reps: filler / 2 },
                    Seg { line: L::MethodUnmapped(2), reps: 3 },
                    Seg { line: L::LongNoise(64), reps: filler / 2 },
                    Seg { line: L::Header(k, late), reps: 1 },
                    Seg { line: L::Header(5 + k % 3, 1), reps: 1 },
                    Seg { line: L::Field, reps: 2 },
                ],
                final_eol: k % 2 == 0,
                crlf,
            });
        }
    }
    for n in [65535u32, 65536, 65537, 70000] {
        for neg in [L::MethodUnmapped(0), L::Noise(0), L::Header(3, 1), L::Class] {
            for crlf in [false, true] {
                v.push(MetaCase { segs: vec![Seg { line: L::Class, reps: 1 }, Seg { line: neg.clone(), reps: n }, Seg { line: L::Header(2, 2), reps: 1 }, Seg { line: L::MethodMapped, reps: 1 }], final_eol: false, crlf });
            }
        }
    }
    v
}

pub fn meta_case() -> BoxedStrategy<MetaCase> {
    (vec(seg(), 0..12), any::<bool>(), prop::bool::weighted(0.25)).prop_map(|(segs, final_eol, crlf)| MetaCase { segs, final_eol, crlf }).boxed()
}

#[derive(Clone, Debug, Serialize, Deserialize)]
pub struct RawCase {
    pub hex: String,
}

pub fn run(ctx: &Ctx) -> Report {
    let mut rep = Report::new(ID, "exploration", ctx);
    rep.rule = "Generated: files built from segments (class / line-mapped method / method without usable range in 3 spellings / field / compiler, compiler_version, min_api and look-alike headers with well-formed, malformed, valueless and > u32 values / error lines / blank lines), each repeated 1, 2..5, 47..52, 1000 or 10000 times, so that the deciding record sits after 0, 1, 49, 50, 51, thousands of negatives or in the last line without terminator; LF or CRLF; plus a fold-only stage with records starting mid-line (line terminators deleted) and metadata values in the numeric grey zone (+21, 021, padded, non-ASCII digits, 2^32), plus hostile token mutants and raw bytes. Oracle: (1) truth computed from the generated line list, (2) the fold over ProguardMapping::iter() stated in the property; has_line_info / is_valid / summary must equal both. evaluations = files. Non-trivial = distinct files whose deciding record (first line-mapped method, last metadata header) is not among the first 10 items.".into();
    rep.assumptions = vec!["min_api is the u32 parse of the last min_api header value; grey-zone values (leading +, padding, non-ASCII digits) are only judged by the fold over iter(), never by the hand-written truth".into()];
    rep.run_stage("segments", meta_case, ctx.cases(40_000, 1_800_000), check_case);
    rep.run_stage("joined", joined_case, ctx.cases(60_000, 1_500_000), check_joined);
    let longs = long_cases();
    rep.run_enum("long", &longs, check_case);
    rep.run_enum("default-objects", &[0u8], super::common::check_default_objects);
    let cfg = crate::gen::mapping::GenCfg { plain_sourcefile_headers: true, ..Default::default() };
    rep.run_stage("mutants", move || crate::gen::mutate::hostile_case(&cfg), ctx.cases(40_000, 1_800_000), |c: &crate::gen::mutate::MutCase, st: &mut Stats| check_raw(&c.bytes(), st));
    rep.run_stage("bytes", || vec(any::<u8>(), 0..300).prop_map(|v| RawCase { hex: hex(&v) }), ctx.cases(40_000, 1_800_000), |c: &RawCase, st: &mut Stats| check_raw(&unhex(&c.hex), st));
    let files = super::c02::corpus_files();
    rep.run_enum("corpus", &files, |p: &String, st: &mut Stats| {
        let b = std::fs::read(p).map_err(|e| Fail::new("harness-io", e.to_string()))?;
        st.class("corpus file");
        st.nontrivial(fnv64(&b));
        check_raw(&b, st)
    });
    rep
}

pub fn replay(stage: &str, case: &Value) -> Check {
    if stage == "default-objects" {
        return super::common::check_default_objects(&0, &mut Stats::new());
    }
    let mut st = Stats::new();
    let de = |e: serde_json::Error| Fail::new("harness-replay", e.to_string());
    match stage {
        "joined" => check_joined(&serde_json::from_value(case.clone()).map_err(de)?, &mut st),
        "segments" | "long" => check_case(&serde_json::from_value(case.clone()).map_err(de)?, &mut st),
        "mutants" => {
            let c: crate::gen::mutate::MutCase = serde_json::from_value(case.clone()).map_err(de)?;
            check_raw(&c.bytes(), &mut st)
        }
        "bytes" => {
            let c: RawCase = serde_json::from_value(case.clone()).map_err(de)?;
            check_raw(&unhex(&c.hex), &mut st)
        }
        "corpus" => check_raw(&std::fs::read(case.as_str().unwrap_or("")).map_err(|e| Fail::new("harness-replay", e.to_string()))?, &mut st),
        _ => Err(Fail::new("harness-replay", format!("unknown stage {stage}"))),
    }
}

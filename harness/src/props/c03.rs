//! C03 — parameter-based retrace returns the distinct real methods matching name and args.

use super::common::*;
use crate::api::Retracer;
use crate::engine::{Check, Ctx, Fail, Report, Stats};
use crate::gen::mapping::GenCfg;
use crate::gen::universe::Universe;
use crate::model::retrace::Model;
use crate::transcript::check_params_model;
use serde_json::Value;

pub const ID: &str = "C03";

pub fn cfg() -> GenCfg {
    GenCfg {
        plain_sourcefile_headers: false,
        records_inside_inline_groups: false,
        overloads: true,
        alias_ranges: true,
        max_blocks: 6,
        max_items: 12,
        ..GenCfg::default()
    }
}

fn classify(model: &Model, st: &mut Stats) {
    let mut inlined = false;
    let mut dup_same_class = false;
    let mut later_class_bp = false;
    let mut triples: std::collections::HashMap<(&str, &str, &str), usize> = Default::default();
    for (ci, c) in model.classes.values().enumerate() {
        let mut seen = std::collections::HashSet::new();
        let mut local = std::collections::HashSet::new();
        for e in &c.entries {
            if e.inlined_callee {
                inlined = true;
            } else if !seen.insert((e.m.obf.as_str(), e.m.args.as_str(), e.m.oname.as_str())) {
                dup_same_class = true;
            }
            if e.by_params {
                if ci >= 1 {
                    later_class_bp = true;
                }
                local.insert((e.m.obf.as_str(), e.m.args.as_str(), e.m.oname.as_str()));
            }
        }
        for t in local {
            *triples.entry(t).or_insert(0) += 1;
        }
    }
    if inlined {
        st.class("case with an inlined callee (filtered from the by-params index)");
    }
    if dup_same_class {
        st.class("case with a duplicate (obf,args,original) triple in one class");
    }
    if triples.values().any(|n| *n >= 2) {
        st.class("case with the same triple in two classes (leak detection)");
    }
    if later_class_bp {
        st.class("case with by-params entries in a class of sort index >= 1");
    }
    if model.shadowed > 0 {
        st.class("case with duplicate class blocks");
    }
}

pub fn check_case(case: &MapCase, st: &mut Stats) -> Check {
    let model = Model::new(&case.file);
    classify(&model, st);
    let u = Universe::from_ast(&case.file, true);
    let case_hash = case.hash();
    if st.want_sample() && case.file.n_methods() >= 4 {
        st.sample(|| case.sample());
    }
    let bytes = case.bytes();
    let variants = mapper_variants(&bytes)?;
    let buf = write_cache(&bytes)?;
    let cache = parse_cache(&buf)?;
    // queries naming entries that the inline filter or the de-duplication removed are non-trivial, too
    for c in model.classes.values() {
        for e in &c.entries {
            if !e.by_params {
                st.nontrivial(crate::transcript::qhash(case_hash, b'r', &[c.obf.as_bytes(), e.m.obf.as_bytes(), e.m.args.as_bytes()]));
            }
        }
    }
    let mut impls: Vec<&dyn Retracer> = variants.iter().filter(|(_, p)| *p).map(|(m, _)| m as &dyn Retracer).collect();
    impls.push(&cache);
    for (ii, r) in impls.into_iter().enumerate() {
        no_panic("query", || {
            let mut scratch = Stats::new();
            let target: &mut Stats = if ii == 0 { st } else { &mut scratch };
            check_params_model(r, &model, &u, case_hash, target)?;
            if ii != 0 {
                st.evaluations += scratch.evaluations;
            }
            Ok(())
        })?;
    }
    Ok(())
}

/// Parameter frames through the typed stack-trace API: the frames of the result must be the concatenation of the
/// model's by-params answers (an unresolved frame is kept unchanged).
pub fn check_typed(case: &MapCase, st: &mut Stats) -> Check {
    let model = Model::new(&case.file);
    let u = Universe::from_ast(&case.file, false);
    let bytes = case.bytes();
    let pool = name_pool_for(&case.file, &u);
    let traces = crate::engine::sample_n(&crate::gen::trace::param_trace(&pool, &u.params), case.key ^ 0xc03, 12);
    let m_params = mapper(&bytes, true)?;
    let buf = write_cache(&bytes)?;
    let cache = parse_cache(&buf)?;
    for t in &traces {
        let mut want: Vec<(String, String, Option<String>)> = Vec::new();
        let mut resolved = 0;
        for f in &t.frames {
            let p = f.params.as_deref().unwrap_or("");
            let ans = model.frames_by_params(&f.class, &f.method, p);
            if ans.is_empty() {
                want.push((f.class.clone(), f.method.clone(), f.params.clone()));
            } else {
                resolved += 1;
                for a in ans {
                    want.push((a.class.to_string(), a.method.to_string(), a.params.map(|s| s.to_string())));
                }
            }
        }
        if resolved >= 1 {
            st.nontrivial(crate::engine::fnv64(format!("{t:?}").as_bytes()) ^ case.hash());
        }
        if t.frames.windows(2).any(|w| w[0].class == w[1].class && w[0].method == w[1].method && w[0].params != w[1].params) {
            st.class("typed trace: adjacent frames with the same class and method but different parameter strings");
        }
        for r in [&m_params as &dyn Retracer, &cache] {
            st.evaluations += 1;
            let got = no_panic("remap_stacktrace_typed", || Ok(r.typed(t)))?;
            let got_frames: Vec<(String, String, Option<String>)> = got.frames.iter().map(|f| (f.class.clone(), f.method.clone(), f.params.clone())).collect();
            if got_frames != want {
                return Err(Fail::new(
                    "typed-params",
                    format!("{}: typed remapping of parameter frames {:?} gave {:?}, the by-params model gives {:?}", r.name(), t.frames.iter().map(|f| (&f.class, &f.method, &f.params)).collect::<Vec<_>>(), got_frames, want),
                )
                .with(serde_json::json!({"impl": r.name(), "trace": t})));
            }
        }
    }
    Ok(())
}

pub fn check_corpus(c: &CorpusAstCase, st: &mut Stats) -> Check {
    let Some((bytes, ast)) = load_corpus_ast(c)? else {
        st.class("corpus file not fully classified by the strict recogniser (skipped)");
        return Ok(());
    };
    // the by-params statement is only unambiguous when no header/field record separates two methods of an inline group
    let ambiguous = ast.blocks.iter().any(|b| {
        let recs: Vec<&crate::gen::mapping::Item> = b.items.iter().filter(|i| !matches!(i, crate::gen::mapping::Item::Noise(_) | crate::gen::mapping::Item::Blank)).collect();
        recs.windows(3).any(|w| match (w[0], w[1], w[2]) {
            (crate::gen::mapping::Item::Method(a), x, crate::gen::mapping::Item::Method(b)) if !matches!(x, crate::gen::mapping::Item::Method(_)) => a.usable().is_some() && a.usable() == b.usable(),
            _ => false,
        })
    });
    if ambiguous {
        st.class("corpus file with a record inside an inline group (skipped)");
        return Ok(());
    }
    st.class("corpus file checked against the reference model");
    let model = Model::new(&ast);
    let u = sampled_universe(&ast, c.max_classes, c.pick);
    let case_hash = crate::engine::fnv64(&bytes) ^ c.pick;
    st.sample(|| serde_json::json!({"corpus file": c.path, "crlf": c.crlf, "classes sampled": u.known_classes.len(), "params sampled": u.params.len()}));
    let m_params = mapper(&bytes, true)?;
    let buf = write_cache(&bytes)?;
    let cache = parse_cache(&buf)?;
    let impls: [&dyn Retracer; 2] = [&m_params, &cache];
    for (ii, r) in impls.into_iter().enumerate() {
        no_panic("query", || {
            let mut scratch = Stats::new();
            let target: &mut Stats = if ii == 0 { st } else { &mut scratch };
            check_params_model(r, &model, &u, case_hash, target)?;
            if ii != 0 {
                st.evaluations += scratch.evaluations;
            }
            Ok(())
        })?;
    }
    Ok(())
}

pub fn run(ctx: &Ctx) -> Report {
    let mut rep = Report::new(ID, "exploration", ctx);
    rep.rule = "Cases: grammar-generated mapping ASTs weighted to overloads, repeated (obf,args,original) triples within and across classes, inline groups, methods with/without ranges, empty argument lists; header/field records never separate two methods with identical usable ranges (by construction). Oracle: by-params reference model from the AST (skip inlined callees = next record is a method with identical usable range; keep first of each triple per class block; last block of a name wins). Checked for the mapper with param index and for the cache on all (class, method, params) triples of the universe incl. unknown/near-miss values, through remap_frame and (stage 'typed') through remap_stacktrace_typed with parameter-carrying frames. Non-trivial = distinct (case, query) with non-empty model answer, or naming an entry removed by the inline filter / de-duplication.".into();
    rep.assumptions = vec!["cache buffers are 8-byte aligned".into(), "domain: non-empty names, numbers < 2^32-1".into()];
    let n = ctx.cases(30_000, 1_200_000);
    rep.run_stage("ast", || map_case(&cfg()), n, check_case);
    rep.run_stage("tall", || tall_case(&cfg()), ctx.cases(60, 2_400), check_case);
    rep.run_stage("typed", || map_case(&cfg()), ctx.cases(6_000, 200_000), check_typed);
    let corpus = corpus_ast_cases(12, 50, 6, ctx);
    rep.run_enum("corpus", &corpus, check_corpus);
    super::scale::run(&mut rep, ctx, "C03");
    rep
}

pub fn replay(stage: &str, case: &Value) -> Check {
    let mut st = Stats::new();
    if stage == "scale" {
        return super::scale::replay(case);
    }
    match stage {
        "typed" => check_typed(&serde_json::from_value(case.clone()).map_err(|e| Fail::new("harness-replay", e.to_string()))?, &mut st),
        "ast" | "tall" => check_case(&serde_json::from_value(case.clone()).map_err(|e| Fail::new("harness-replay", e.to_string()))?, &mut st),
        "corpus" => check_corpus(&serde_json::from_value(case.clone()).map_err(|e| Fail::new("harness-replay", e.to_string()))?, &mut st),
        _ => Err(Fail::new("harness-replay", format!("unknown stage {stage}"))),
    }
}

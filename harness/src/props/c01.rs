//! C01 — line-based retrace returns exactly the call stack recorded in the mapping.

use super::common::*;
use crate::api::Retracer;
use crate::engine::{Check, Ctx, Fail, Report, Stats};
use crate::gen::mapping::{Eol, GenCfg, OLines, Render, SYNTHETIC};
use crate::gen::universe::Universe;
use crate::model::retrace::Model;
use crate::transcript::{check_class_model, check_lines_model};
use serde_json::Value;

pub const ID: &str = "C01";

pub fn cfg() -> GenCfg {
    GenCfg { plain_sourcefile_headers: false, ..GenCfg::default() }
}

fn classify(model: &Model, st: &mut Stats) {
    let mut offset_live = false;
    let mut no_range = false;
    let mut synthetic = false;
    let mut foreign_with_file = false;
    let mut foreign_no_file = false;
    let mut file_rule = false;
    let mut collapse = false;
    let mut callsite = false;
    let mut inverted = false;
    let mut big = false;
    for c in model.classes.values() {
        for e in &c.entries {
            match e.m.usable() {
                None => no_range = true,
                Some((s, en)) => {
                    if s > en {
                        inverted = true;
                    }
                    if en >= (1 << 31) {
                        big = true;
                    }
                    match e.m.olines {
                        OLines::SE(a, b) if a != b && en > s => offset_live = true,
                        OLines::SE(a, b) if a == b => collapse = true,
                        OLines::S(_) => callsite = true,
                        OLines::None if en > s => offset_live = true,
                        _ => {}
                    }
                }
            }
            match (e.file, e.m.oclass.is_some()) {
                (Some(f), _) if f == SYNTHETIC => synthetic = true,
                (Some(_), true) => foreign_with_file = true,
                (Some(_), false) => file_rule = true,
                (None, true) => foreign_no_file = true,
                _ => {}
            }
        }
    }
    for (b, n) in [
        (offset_live, "case with range-to-range offset arithmetic live (e>s, oe!=os)"),
        (collapse, "case with single-line collapse (oe==os)"),
        (callsite, "case with call-site line (':os' only)"),
        (no_range, "case with an entry without usable range"),
        (inverted, "case with inverted range"),
        (synthetic, "case with R8$$SyntheticClass file rule"),
        (file_rule, "case with sourceFile rule"),
        (foreign_with_file, "case with foreign class under a sourceFile"),
        (foreign_no_file, "case with foreign class, no sourceFile (file dropped)"),
        (model.shadowed > 0, "case with duplicate class name"),
        (big, "case with line numbers >= 2^31"),
    ] {
        if b {
            st.class(n);
        }
    }
}

pub fn check_case(case: &MapCase, st: &mut Stats) -> Check {
    let model = Model::new(&case.file);
    classify(&model, st);
    let u = Universe::from_ast(&case.file, true);
    let case_hash = case.hash();
    if st.want_sample() && case.file.n_methods() >= 3 {
        st.sample(|| case.sample());
    }
    // rendering 1: as generated; rendering 2: other line ending, noise removed; rendering 3: blocks permuted
    let r2 = Render {
        eol: match case.render.eol {
            Eol::Lf => Eol::CrLf,
            Eol::CrLf => Eol::Cr,
            Eol::Cr => Eol::Lf,
            Eol::Mixed(_) => Eol::Lf,
        },
        final_eol: !case.render.final_eol,
    };
    let stripped = case.file.without_noise();
    let mut renderings: Vec<(&'static str, Vec<u8>)> = vec![("as-generated", case.bytes()), ("other-eol-no-noise", stripped.render(&r2))];
    if case.file.distinct_blocks() && case.file.blocks.len() >= 2 {
        renderings.push(("blocks-permuted", case.file.permuted(case.key).render(&case.render)));
        st.class("case checked with permuted block order");
    } else {
        renderings.push(("cr-only", case.file.render(&Render { eol: Eol::Cr, final_eol: true })));
    }
    for (ri, (rname, bytes)) in renderings.iter().enumerate() {
        // every constructor of the mapper (the From<&str> ones only for the first rendering: they cost as much as the others)
        let variants = mapper_variants(bytes)?;
        let buf = write_cache(bytes)?;
        let cache = parse_cache(&buf)?;
        let mut impls: Vec<&dyn Retracer> = variants.iter().take(if ri == 0 { 6 } else { 2 }).map(|(m, _)| m as &dyn Retracer).collect();
        impls.push(&cache);
        for (ii, r) in impls.into_iter().enumerate() {
            no_panic("query", || {
                let mut scratch = Stats::new();
                // count non-trivial cases and classes once (first rendering, first implementation)
                let first = ri == 0 && ii == 0;
                let target: &mut Stats = if first { st } else { &mut scratch };
                check_class_model(r, &model, &u, case_hash, target)?;
                check_lines_model(r, &model, &u, case_hash, target, |_c, _m, l, want, st| {
                    if want.len() >= 2 {
                        st.class("query answered with >=2 frames (inline stack)");
                    }
                    if l >= (1 << 32) - 2 && !want.is_empty() {
                        st.class("extreme line with non-empty answer");
                    }
                })?;
                if !first {
                    st.evaluations += scratch.evaluations;
                }
                Ok(())
            })
            .map_err(|mut f| {
                f.msg = format!("[rendering {rname}] {}", f.msg);
                if let Value::Object(o) = &mut f.detail {
                    o.insert("rendering".into(), Value::String(rname.to_string()));
                    o.insert("rendered_bytes".into(), Value::String(crate::engine::show_bytes(bytes)));
                }
                f
            })?;
        }
    }
    Ok(())
}

pub fn check_corpus(c: &CorpusAstCase, st: &mut Stats) -> Check {
    let Some((bytes, ast)) = load_corpus_ast(c)? else {
        st.class("corpus file not fully classified by the strict recogniser (skipped)");
        return Ok(());
    };
    st.class("corpus file checked against the reference model");
    let model = Model::new(&ast);
    let u = sampled_universe(&ast, c.max_classes, c.pick);
    let case_hash = crate::engine::fnv64(&bytes) ^ c.pick;
    st.sample(|| serde_json::json!({"corpus file": c.path, "crlf": c.crlf, "classes": ast.blocks.len(), "classes sampled": u.known_classes.len(), "methods sampled": u.known_methods.len()}));
    let m_plain = mapper(&bytes, false)?;
    let buf = write_cache(&bytes)?;
    let cache = parse_cache(&buf)?;
    let impls: [&dyn Retracer; 2] = [&m_plain, &cache];
    for (ii, r) in impls.into_iter().enumerate() {
        no_panic("query", || {
            let mut scratch = Stats::new();
            let target: &mut Stats = if ii == 0 { st } else { &mut scratch };
            check_class_model(r, &model, &u, case_hash, target)?;
            check_lines_model(r, &model, &u, case_hash, target, |_, _, _, _, _| {})?;
            if ii != 0 {
                st.evaluations += scratch.evaluations;
            }
            Ok(())
        })?;
    }
    Ok(())
}

pub fn run(ctx: &Ctx) -> Report {
    let mut rep = Report::new(ID, "exploration", ctx);
    rep.rule = "Cases: grammar-generated mapping ASTs (representable domain; inline groups, overlapping/inverted/zero ranges, duplicate class names, sourceFile headers anywhere incl. R8$$SyntheticClass, foreign classes, noise lines, header/field records anywhere), each in 3 renderings (as generated; other line ending with noise removed; blocks permuted when names are distinct, else CR-only). Corpus files of /repo/tests/res (LF and CRLF) are converted to the AST by an independent strict line recogniser and checked the same way on a sample of their classes. Oracle: reference retrace model computed from the AST. Each rendering x {mapper, mapper with param index, cache} is checked on the complete by-line universe (all known classes x methods x lines 0..66 + every range boundary +-1 + interior + 2^32-2..2^32, 2^64-1 x file present/absent, plus unknown/near-miss names). evaluations = single query comparisons against the model. Non-trivial = distinct (case, query) with non-empty model answer, or known class+method with every entry filtered by range.".into();
    rep.assumptions = vec![
        "model formulas are those of the property statement; the original-line rule is cross-checked mapper vs cache".into(),
        "cache buffers are 8-byte aligned".into(),
    ];
    let n = ctx.cases(6000, 180_000);
    rep.run_stage("ast", || map_case(&cfg()), n, check_case);
    rep.run_stage("tall", || tall_case(&cfg()), ctx.cases(60, 2_400), check_case);
    let corpus = corpus_ast_cases(10, 40, 6, ctx);
    rep.run_enum("corpus", &corpus, check_corpus);
    super::scale::run(&mut rep, ctx, "C01");
    rep
}

pub fn replay(stage: &str, case: &Value) -> Check {
    let mut st = Stats::new();
    if stage == "scale" {
        return super::scale::replay(case);
    }
    match stage {
        "ast" | "tall" => check_case(&serde_json::from_value(case.clone()).map_err(|e| Fail::new("harness-replay", e.to_string()))?, &mut st),
        "corpus" => check_corpus(&serde_json::from_value(case.clone()).map_err(|e| Fail::new("harness-replay", e.to_string()))?, &mut st),
        _ => Err(Fail::new("harness-replay", format!("unknown stage {stage}"))),
    }
}

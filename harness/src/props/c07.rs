//! C07 — text trace remapping rewrites known lines and passes everything else through.

use super::common::*;
use crate::api::Retracer;
use crate::engine::{fnv64, sample_n, Check, Ctx, Fail, Report, Stats};
use crate::gen::mapping::GenCfg;
use crate::gen::trace::{self, TextLine, TextTrace};
use crate::gen::universe::Universe;
use crate::model::retrace::Model;
use serde_json::{json, Value};

pub const ID: &str = "C07";

pub fn cfg() -> GenCfg {
    GenCfg { plain_sourcefile_headers: false, max_blocks: 5, max_items: 8, long: 0, ..GenCfg::default() }
}

/// Per-line decision list of the statement, composed from the crate's public single-line functions.
pub fn compose(r: &dyn Retracer, input: &str) -> (String, usize, usize) {
    let mut out = String::new();
    let mut rewritten = 0;
    let mut passed = 0;
    // lines are classified by the harness's own recognisers (model::traceparse), not by the crate's parser
    use crate::model::traceparse::{frame_line, throwable_line};
    let frame_lines = |line: &str| -> Option<Vec<String>> {
        let f = frame_line(line)?;
        let frames = r.frame_line(f.class, f.method, f.line, Some(f.file));
        if frames.is_empty() {
            return None;
        }
        Some(frames.iter().map(|x| format!("    at {}.{}({}:{})", x.class, x.method, x.file.unwrap_or("<unknown>"), x.line)).collect())
    };
    let throwable = |text: &str| -> Option<String> {
        let (class, message) = throwable_line(text)?;
        let (c, m) = r.throwable(class, message)?;
        Some(match m {
            Some(m) => format!("{c}: {m}"),
            None => c.to_string(),
        })
    };
    for (i, line) in input.lines().enumerate() {
        let is_throwable_shape = throwable_line(line).is_some();
        let replaced: Option<Vec<String>> = if i == 0 && is_throwable_shape {
            throwable(line).map(|t| vec![t])
        } else if i == 0 {
            frame_lines(line)
        } else if frame_line(line).is_some() {
            frame_lines(line)
        } else if let Some(rest) = line.strip_prefix("Caused by: ") {
            throwable(rest).map(|t| vec![format!("Caused by: {t}")])
        } else {
            None
        };
        match replaced {
            Some(ls) => {
                rewritten += 1;
                for l in ls {
                    out.push_str(&l);
                    out.push('\n');
                }
            }
            None => {
                passed += 1;
                out.push_str(line);
                out.push('\n');
            }
        }
    }
    (out, rewritten, passed)
}

/// Expected output lines for AST-kinded lines, from the reference model only (no crate parsing).
pub fn expected_from_model(model: &Model, t: &TextTrace) -> Option<Vec<String>> {
    if t.eol == 3 {
        return None; // bare CR does not end a line for the text API: AST lines and text lines do not correspond
    }
    let mut out = Vec::new();
    for (i, l) in t.lines.iter().enumerate() {
        match l {
            TextLine::Frame(indent, f) => {
                // only indents made of spaces/tabs are generated; the frame is in the C17 domain
                if !trace::frame_class_ok(&f.class) || !trace::method_ok(&f.method) || f.file.as_ref().map_or(true, |x| x.contains(':')) {
                    return None;
                }
                let frames = model.frames_by_line(&f.class, &f.method, f.line, f.file.as_deref());
                if frames.is_empty() {
                    out.push(format!("{indent}{}", f.print()));
                } else {
                    for x in frames {
                        out.push(format!("    at {}.{}({}:{})", x.class, x.method, x.file.unwrap_or("<unknown>"), x.line));
                    }
                }
            }
            TextLine::Throwable(th) | TextLine::Cause(th) => {
                if !trace::class_ok(&th.class) || th.message.as_ref().map_or(false, |m| m.is_empty() || m.trim() != m) {
                    return None;
                }
                let is_cause = matches!(l, TextLine::Cause(_));
                let printed = if is_cause { format!("Caused by: {}", th.print()) } else { th.print() };
                let applies = (i == 0 && !is_cause) || (i > 0 && is_cause);
                match (applies, model.class(&th.class)) {
                    (true, Some(orig)) => {
                        let body = match &th.message {
                            Some(m) => format!("{orig}: {m}"),
                            None => orig.to_string(),
                        };
                        out.push(if is_cause { format!("Caused by: {body}") } else { body });
                    }
                    _ => out.push(printed),
                }
            }
            TextLine::IndentedCause(indent, th) => {
                // "Caused by: " is only recognised at the very start of a line: always passed through
                if indent.is_empty() || !trace::class_ok(&th.class) || th.message.as_ref().map_or(false, |m| m.is_empty() || m.trim() != m) {
                    return None;
                }
                out.push(format!("{indent}Caused by: {}", th.print()));
            }
            TextLine::Invisible(prefix, th, is_cause) => {
                if !trace::class_ok(&th.class) || th.message.as_ref().map_or(false, |m| m.is_empty() || m.trim() != m) {
                    return None;
                }
                // the invisible character is part of the class name: a different (normally unknown) class
                let class = format!("{prefix}{}", th.class);
                let shown = crate::api::ThrowableAst { class: class.clone(), message: th.message.clone() };
                let printed = if *is_cause { format!("Caused by: {}", shown.print()) } else { shown.print() };
                let applies = (i == 0 && !is_cause) || (i > 0 && *is_cause);
                match (applies, model.class(&class)) {
                    (true, Some(orig)) => {
                        let body = match &th.message {
                            Some(m) => format!("{orig}: {m}"),
                            None => orig.to_string(),
                        };
                        out.push(if *is_cause { format!("Caused by: {body}") } else { body });
                    }
                    _ => out.push(printed),
                }
            }
            TextLine::Prefixed(prefix, th) => {
                if !trace::class_ok(&th.class) || th.message.as_ref().map_or(false, |m| m.is_empty() || m.trim() != m) {
                    return None;
                }
                // prefixes that contain a blank before the class make the whole line "class with a space": not a throwable.
                // prefixes without any blank (e.g. "Caused by:") glue to the class; either way the mapping cannot know it
                // unless the glued string happens to be a class of the mapping (checked through the model).
                let line = format!("{prefix}{}", th.print());
                let trimmed = line.trim();
                let head = trimmed.split(": ").next().unwrap_or("");
                if i == 0 && !head.contains(' ') && model.class(head).is_some() {
                    return None; // would legitimately be remapped; leave it to the composition oracle
                }
                out.push(line);
            }
            TextLine::Raw(_) => return None,
        }
    }
    Some(out)
}

pub fn check_text(r: &dyn Retracer, model: Option<&Model>, t: &TextTrace, st: &mut Stats) -> Check {
    let input = t.render();
    st.evaluations += 1;
    let got = r.text(&input).map_err(|e| Fail::new("text-error", format!("{}: remap_stacktrace returned Err({e}) for {input:?}", r.name())).with(json!({"input": input})))?;
    let (want, rewritten, passed) = compose(r, &input);
    if rewritten >= 1 && passed >= 1 {
        st.nontrivial(fnv64(input.as_bytes()) ^ fnv64(got.as_bytes()));
    }
    if got != want {
        return Err(Fail::new("text-composition", format!("{}: remap_stacktrace({input:?}) = {got:?}, the per-line rule gives {want:?}", r.name())).with(json!({"impl": r.name(), "input": input, "got": got, "want": want})));
    }
    // conservation: output line count = sum over input lines of max(1, #remapped frames)
    let mut expect_lines = 0usize;
    for (i, line) in input.lines().enumerate() {
        let as_frame = if i == 0 && crate::model::traceparse::throwable_line(line).is_some() { None } else { crate::model::traceparse::frame_line(line) };
        expect_lines += match as_frame {
            Some(f) => r.frame_line(f.class, f.method, f.line, Some(f.file)).len().max(1),
            None => 1,
        };
    }
    if got.lines().count() != expect_lines || (!got.is_empty() && !got.ends_with('\n')) {
        return Err(Fail::new("text-line-count", format!("{}: output has {} lines, expected {expect_lines} for {input:?}: {got:?}", r.name(), got.lines().count())).with(json!({"input": input})));
    }
    if let Some(m) = model {
        if let Some(exp) = expected_from_model(m, t) {
            st.class("text whose every line is AST-kinded (checked against the reference model)");
            let got_lines: Vec<&str> = got.lines().collect();
            if got_lines != exp.iter().map(|s| s.as_str()).collect::<Vec<_>>() {
                return Err(Fail::new("text-vs-model", format!("{}: remap_stacktrace({input:?}) = {got_lines:?}, the reference model gives {exp:?}", r.name())).with(json!({"impl": r.name(), "input": input})));
            }
        }
    }
    Ok(())
}

fn classify_text(t: &TextTrace, st: &mut Stats) {
    if matches!(t.lines.first(), Some(TextLine::Frame(..))) {
        st.class("first line is a frame");
    }
    if t.lines.iter().skip(1).any(|l| matches!(l, TextLine::Cause(_))) {
        st.class("cause line on a later line");
    }
    if t.lines.iter().skip(1).any(|l| matches!(l, TextLine::Throwable(_))) {
        st.class("bare throwable on a later line (must pass through)");
    }
    if matches!(t.lines.first(), Some(TextLine::Cause(_))) {
        st.class("'Caused by:' on the first line (must pass through)");
    }
    if t.lines.iter().any(|l| matches!(l, TextLine::Raw(_))) {
        st.class("unrecognised shapes present");
    }
    if t.lines.iter().any(|l| matches!(l, TextLine::IndentedCause(..))) {
        st.class("indented 'Caused by:' line (must pass through)");
    }
    if t.lines.iter().any(|l| matches!(l, TextLine::Prefixed(..))) {
        st.class("throwable behind a non-cause prefix (Suppressed:, caused by:, logcat tag …)");
    }
    if t.lines.iter().any(|l| matches!(l, TextLine::Invisible(..))) {
        st.class("invisible character in front of a class name");
    }
    if t.eol != 0 {
        st.class("CRLF / mixed line endings");
    }
    if !t.final_eol {
        st.class("no final newline");
    }
}

pub fn texts_for(u: &Universe, pool: &trace::NamePool, key: u64, n: usize) -> Vec<TextTrace> {
    let _ = u;
    sample_n(&trace::text_trace(pool, 16), key ^ 0xc07, n)
}

pub fn check_case(case: &MapCase, st: &mut Stats) -> Check {
    let model = Model::new(&case.file);
    let u = Universe::from_ast(&case.file, false);
    let bytes = case.bytes();
    let n = 24;
    let pool = name_pool_for(&case.file, &u);
    let texts = texts_for(&u, &pool, case.key, n);
    let m = mapper(&bytes, false)?;
    let buf = write_cache(&bytes)?;
    let cache = parse_cache(&buf)?;
    // a mapping that knows none of the trace's classes
    let unrelated = b"zz.q.Unrelated -> qq.zz:\n    1:1:void x():1 -> y\n";
    let m_un = mapper(unrelated, false)?;
    let m_empty = mapper(b"", false)?;
    for t in &texts {
        classify_text(t, st);
        let input = t.render();
        if st.want_sample() && t.lines.len() >= 4 && !case.file.blocks.is_empty() {
            st.sample(|| json!({"mapping": crate::engine::show_bytes(&bytes), "input": input}));
        }
        no_panic("remap_stacktrace", || {
            check_text(&m, Some(&model), t, st)?;
            let mut scratch = Stats::new();
            check_text(&cache, Some(&model), t, &mut scratch)?;
            st.evaluations += scratch.evaluations;
            let a = m.text(&input).map_err(|e| Fail::new("text-error", e))?;
            let b = cache.text(&input).map_err(|e| Fail::new("text-error", e))?;
            if a != b {
                return Err(Fail::new("text-mapper-vs-cache", format!("mapper and cache disagree on {input:?}: {a:?} vs {b:?}")).with(json!({"input": input})));
            }
            // identity up to line-terminator normalisation
            let ident: String = input.lines().map(|l| format!("{l}\n")).collect();
            for (r, what) in [(&m_un, "unrelated"), (&m_empty, "empty")] {
                st.evaluations += 1;
                // the unrelated mapping must really know none of the classes (qq.zz is never generated)
                let out = r.text(&input).map_err(|e| Fail::new("text-error", e))?;
                if out != ident {
                    return Err(Fail::new("text-identity", format!("with the {what} mapping the output {out:?} differs from the input lines {ident:?}")).with(json!({"input": input})));
                }
            }
            Ok(())
        })?;
    }
    Ok(())
}

/// long texts (hundreds of lines drawn with repetition from a small pool, > 16 KiB)
pub fn check_long(case: &MapCase, st: &mut Stats) -> Check {
    let model = Model::new(&case.file);
    let u = Universe::from_ast(&case.file, false);
    let bytes = case.bytes();
    let pool = name_pool_for(&case.file, &u);
    let texts: Vec<TextTrace> = sample_n(&trace::long_text(&pool), case.key ^ 0x1047, 2);
    let m = mapper(&bytes, false)?;
    let buf = write_cache(&bytes)?;
    let cache = parse_cache(&buf)?;
    for t in &texts {
        st.class("text with >= 350 lines");
        no_panic("remap_stacktrace", || {
            check_text(&m, Some(&model), t, st)?;
            check_text(&cache, Some(&model), t, st)
        })
        .map_err(|mut f| {
            f.msg = crate::engine::truncate(&f.msg, 1500);
            f.detail = json!({"lines": t.lines.len()});
            f
        })?;
    }
    Ok(())
}

pub fn run(ctx: &Ctx) -> Report {
    let mut rep = Report::new(ID, "exploration", ctx);
    rep.rule = "Cases: generated mappings x 24 texts each, built over the mapping's own names (throwables, 'Caused by:' lines, frames with space/tab/mixed/no indentation, '... n more', Native Method / Unknown Source frames, frames without parentheses, blank lines, arbitrary Unicode, LF/CRLF/mixed, with/without final newline). Oracles: (1) per-line decision list of the statement composed from the public single-line API (Throwable::try_parse, StackFrame::try_parse, remap_throwable, remap_frame, Display formats) — output must equal the concatenation, result must be Ok; (2) for texts whose lines are all AST-kinded, expected output computed from the reference retrace model without any crate parsing; (3) conservation: output line count = sum max(1, #remapped frames); (4) mapper output == cache output; (5) with an unrelated and with an empty mapping the output equals the input lines joined with LF. evaluations = remap_stacktrace calls checked. Non-trivial = distinct texts in which >=1 line is rewritten and >=1 line is passed through.".into();
    rep.assumptions = vec!["single-line parsers are covered by C17 / C01; C07 is about the composition".into()];
    rep.run_stage("ast", || map_case(&cfg()), ctx.cases(15_000, 600_000), check_case);
    rep.run_stage("long", || map_case(&cfg()), ctx.cases(150, 3_000), check_long);
    rep
}

pub fn replay(stage: &str, case: &Value) -> Check {
    let mut st = Stats::new();
    match stage {
        "long" => check_long(&serde_json::from_value(case.clone()).map_err(|e| Fail::new("harness-replay", e.to_string()))?, &mut st),
        "ast" => check_case(&serde_json::from_value(case.clone()).map_err(|e| Fail::new("harness-replay", e.to_string()))?, &mut st),
        _ => Err(Fail::new("harness-replay", format!("unknown stage {stage}"))),
    }
}

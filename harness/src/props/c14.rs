//! C14 — cache serialisation is a deterministic function of the mapping bytes.

use super::common::*;
use crate::engine::{guarded, hex, unhex, Check, Ctx, Fail, Report, Stats};
use crate::gen::mapping::GenCfg;
use crate::model::layout;
use crate::model::retrace::Model;
use serde_json::{json, Value};
use std::io::{Read, Write};
use std::process::{Command, Stdio};
use std::sync::Mutex;

pub const ID: &str = "C14";
pub const CHILDREN: usize = 8;

pub fn cfg() -> GenCfg {
    GenCfg { plain_sourcefile_headers: true, overloads: true, max_blocks: 12, ..GenCfg::default() }
}

pub fn digest(b: &[u8]) -> String {
    // two independent 64-bit hashes + length
    let h1 = crate::engine::fnv64(b);
    let mut h2: u64 = 0x243f6a8885a308d3;
    for (i, c) in b.iter().enumerate() {
        h2 = (h2 ^ (*c as u64).wrapping_add(i as u64)).wrapping_mul(0x9e3779b97f4a7c15).rotate_left(23);
    }
    format!("{h1:016x}{h2:016x}:{}", b.len())
}

fn write_once(bytes: &[u8]) -> Result<Vec<u8>, String> {
    guarded(|| {
        let m = proguard::ProguardMapping::new(bytes);
        let mut out = Vec::new();
        proguard::ProguardCache::write(&m, &mut out).map(|_| out).map_err(|e| e.to_string())
    })
    .and_then(|r| r)
}

/// child process: read framed mappings from stdin, print one digest line per mapping
pub fn child_main() -> i32 {
    let mut input = Vec::new();
    if std::io::stdin().read_to_end(&mut input).is_err() {
        return 2;
    }
    // a fresh HashMap per process already has fresh hash seeds; also perturb the allocator state a little
    let _ballast: Vec<Vec<u8>> = (0..(std::process::id() % 13) as usize).map(|i| vec![0u8; 17 + i * 31]).collect();
    let mut frames: Vec<&[u8]> = Vec::new();
    let mut at = 0;
    while at + 4 <= input.len() {
        let len = u32::from_le_bytes([input[at], input[at + 1], input[at + 2], input[at + 3]]) as usize;
        at += 4;
        frames.push(&input[at..at + len]);
        at += len;
    }
    let one = |bytes: &[u8]| match write_once(bytes) {
        Ok(v) => digest(&v),
        Err(e) => format!("ERR {e}"),
    };
    // the very first writes of this process are made by 8 threads released together (whatever the writer initialises
    // lazily is initialised under contention); their output is compared with the sequential writes below
    let k = frames.len().min(8);
    let mut raced: Vec<Vec<String>> = vec![Vec::new(); k];
    if k > 0 {
        let gate = std::sync::atomic::AtomicUsize::new(0);
        let results: Vec<(usize, String)> = std::thread::scope(|sc| {
            let hs: Vec<_> = (0..8usize)
                .map(|t| {
                    let (frames, gate, one) = (&frames, &gate, &one);
                    sc.spawn(move || {
                        gate.fetch_add(1, std::sync::atomic::Ordering::AcqRel);
                        while gate.load(std::sync::atomic::Ordering::Acquire) < 8 {
                            std::hint::spin_loop();
                        }
                        (t % k, one(frames[t % k]))
                    })
                })
                .collect();
            hs.into_iter().filter_map(|h| h.join().ok()).collect()
        });
        for (i, d) in results {
            raced[i].push(d);
        }
    }
    let out = std::io::stdout();
    let mut out = out.lock();
    for (i, bytes) in frames.iter().enumerate() {
        let seq = one(bytes);
        match raced.get(i).and_then(|rs| rs.iter().find(|r| **r != seq)) {
            Some(r) => {
                let _ = writeln!(out, "{r} (a thread racing the first write of the process; sequentially {seq})");
            }
            None => {
                let _ = writeln!(out, "{seq}");
            }
        }
    }
    0
}

/// Environment of the k-th child: deterministic output may not depend on any of it.
pub fn child_env(k: usize, cmd: &mut Command) -> &'static str {
    match k % 8 {
        1 => {
            cmd.env_clear();
            "empty environment"
        }
        2 => {
            cmd.env("TZ", "Pacific/Kiritimati").env("LANG", "tr_TR.UTF-8").env("LC_ALL", "tr_TR.UTF-8").env("LANGUAGE", "tr");
            "TZ/LANG/LC_ALL set"
        }
        3 => {
            cmd.current_dir("/");
            "cwd=/"
        }
        4 => {
            cmd.env("RUST_BACKTRACE", "full").env("RUST_LOG", "trace").env("RUST_MIN_STACK", "16777216").env("RUST_TEST_THREADS", "1");
            "RUST_* variables set"
        }
        5 => {
            // many and long variables move the initial stack and the first heap allocations
            for i in 0..200 {
                cmd.env(format!("PGVERIF_PAD_{i}"), "x".repeat(37 * (i % 11) + 1));
            }
            "200 padding variables"
        }
        6 => {
            cmd.env("HOME", "/nonexistent").env("USER", "nobody").env("TMPDIR", "/nonexistent").env("PROGUARD_DEBUG", "1").env("DEBUG", "1").env("CI", "true");
            "HOME/USER/TMPDIR/DEBUG/CI set"
        }
        7 => {
            cmd.env("MALLOC_ARENA_MAX", "1").env("MALLOC_PERTURB_", "165").env("MALLOC_TOP_PAD_", "1048576");
            "glibc malloc tunables (perturb byte 0xA5, one arena)"
        }
        _ => "inherited environment",
    }
}

/// Run `n` child processes over the same mappings. Child k works under `child_env(k)` and sees the mappings rotated
/// by k positions (so whatever state a process carries from one write to the next differs between children); the
/// answers are rotated back before they are returned.
pub fn run_children(mappings: &[Vec<u8>], n: usize) -> Result<Vec<Vec<String>>, String> {
    let exe = std::env::current_exe().map_err(|e| e.to_string())?;
    let len = mappings.len().max(1);
    let mut kids = Vec::new();
    for k in 0..n {
        let rot = (k * len / n.max(1)) % len;
        let mut framed = Vec::new();
        for i in 0..mappings.len() {
            let m = &mappings[(i + rot) % len];
            framed.extend_from_slice(&(m.len() as u32).to_le_bytes());
            framed.extend_from_slice(m);
        }
        let mut cmd = Command::new(&exe);
        cmd.arg("c14-child").arg("x".repeat(1 + 97 * (k % 5)));
        child_env(k, &mut cmd);
        let mut child = cmd.stdin(Stdio::piped()).stdout(Stdio::piped()).spawn().map_err(|e| format!("cannot spawn child: {e}"))?;
        let mut stdin = child.stdin.take().unwrap();
        let feeder = std::thread::spawn(move || {
            let _ = stdin.write_all(&framed);
        });
        kids.push((child, feeder, rot));
    }
    let mut out = Vec::new();
    for (mut child, feeder, rot) in kids {
        let mut s = String::new();
        child.stdout.take().unwrap().read_to_string(&mut s).map_err(|e| e.to_string())?;
        let _ = feeder.join();
        let status = child.wait().map_err(|e| e.to_string())?;
        if !status.success() {
            return Err(format!("child exited with {status}"));
        }
        let rotated: Vec<String> = s.lines().map(|l| l.to_string()).collect();
        if rotated.len() != mappings.len() {
            return Err(format!("child answered {} lines for {} mappings", rotated.len(), mappings.len()));
        }
        // line j of the child is mapping (j + rot) % len
        let mut lines = vec![String::new(); rotated.len()];
        for (j, l) in rotated.into_iter().enumerate() {
            lines[(j + rot) % len] = l;
        }
        out.push(lines);
    }
    Ok(out)
}

/// One helper process (`c14skew`, next to this executable) over all mappings; one digest line per mapping.
pub fn run_skew_child(mappings: &[Vec<u8>]) -> Result<Vec<String>, String> {
    let exe = std::env::current_exe().map_err(|e| e.to_string())?;
    let helper = exe.with_file_name("c14skew");
    if !helper.exists() {
        return Err(format!("{} not built", helper.display()));
    }
    let mut framed = Vec::new();
    for m in mappings {
        framed.extend_from_slice(&(m.len() as u32).to_le_bytes());
        framed.extend_from_slice(m);
    }
    let mut child = Command::new(&helper).stdin(Stdio::piped()).stdout(Stdio::piped()).spawn().map_err(|e| format!("cannot spawn {}: {e}", helper.display()))?;
    let mut stdin = child.stdin.take().unwrap();
    let feeder = std::thread::spawn(move || {
        let _ = stdin.write_all(&framed);
    });
    let mut s = String::new();
    child.stdout.take().unwrap().read_to_string(&mut s).map_err(|e| e.to_string())?;
    let _ = feeder.join();
    let status = child.wait().map_err(|e| e.to_string())?;
    if !status.success() {
        return Err(format!("helper exited with {status}"));
    }
    let lines: Vec<String> = s.lines().map(|l| l.to_string()).collect();
    if lines.len() != mappings.len() {
        return Err(format!("helper answered {} lines for {} mappings", lines.len(), mappings.len()));
    }
    Ok(lines)
}

pub fn check_in_process(bytes: &[u8], st: &mut Stats) -> Result<String, Fail> {
    st.evaluations += 1;
    let a = write_once(bytes).map_err(|e| Fail::new("write-error", e))?;
    let b = write_once(bytes).map_err(|e| Fail::new("write-error", e))?;
    if a != b {
        return Err(Fail::new("same-process-differs", format!("two writes of the same mapping in one process differ (lengths {} / {})", a.len(), b.len())));
    }
    // length law
    let h = layout::read_header(&a).ok_or_else(|| Fail::new("length-law", "output shorter than a header"))?;
    if layout::required_len(&h) != a.len() {
        return Err(Fail::new("length-law", format!("output length {} != length implied by its own header {} ({h:?})", a.len(), layout::required_len(&h))));
    }
    let d = digest(&a);
    // the output is a function of the mapping bytes, not of where they live: same bytes at 8 different alignments
    let mut shifted = vec![0u8; bytes.len() + 8];
    for off in 1..8usize {
        shifted[off..off + bytes.len()].copy_from_slice(bytes);
        let w = write_once(&shifted[off..off + bytes.len()]).map_err(|e| Fail::new("write-error", e))?;
        st.evaluations += 1;
        if w != a {
            return Err(Fail::new("alignment-dependent", format!("the same mapping bytes at buffer offset {off} (address mod 8 differs) serialise differently ({} vs {} bytes)", w.len(), a.len())));
        }
    }
    // ... nor of the call history of this thread: failed and short writes in between must leave no trace
    struct Limited(usize, usize);
    impl std::io::Write for Limited {
        fn write(&mut self, buf: &[u8]) -> std::io::Result<usize> {
            if self.1 + buf.len() > self.0 {
                return Err(std::io::Error::new(std::io::ErrorKind::Other, "sink full"));
            }
            self.1 += buf.len();
            Ok(buf.len())
        }
        fn flush(&mut self) -> std::io::Result<()> {
            Ok(())
        }
    }
    for limit in [0usize, 23, 24, 25, 60, a.len() / 2, a.len().saturating_sub(1)] {
        let _ = guarded(|| {
            let m = proguard::ProguardMapping::new(bytes);
            let mut sink = Limited(limit, 0);
            let _ = proguard::ProguardCache::write(&m, &mut sink);
        });
        let again = write_once(bytes).map_err(|e| Fail::new("write-error", e))?;
        st.evaluations += 1;
        if again != a {
            return Err(Fail::new("history-dependent", format!("after a write into a sink that fails after {limit} bytes, the next write of the same mapping differs ({} vs {} bytes)", again.len(), a.len())));
        }
    }
    // ... also when the earlier write did not return at all: a sink that panics (caught, the thread lives on — a
    // thread pool, a task runtime); whatever the writer kept for the duration of the call must not survive it
    struct Panicking(usize, usize);
    impl std::io::Write for Panicking {
        fn write(&mut self, buf: &[u8]) -> std::io::Result<usize> {
            if self.1 + buf.len() > self.0 {
                panic!("scripted sink panic");
            }
            self.1 += buf.len();
            Ok(buf.len())
        }
        fn flush(&mut self) -> std::io::Result<()> {
            Ok(())
        }
    }
    for limit in [0usize, 24, 40, a.len() / 2, a.len().saturating_sub(1)] {
        let _ = guarded(|| {
            let m = proguard::ProguardMapping::new(bytes);
            let mut sink = Panicking(limit, 0);
            let _ = proguard::ProguardCache::write(&m, &mut sink);
        });
        let again = write_once(bytes).map_err(|e| Fail::new("write-error", e))?;
        st.evaluations += 1;
        if again != a {
            return Err(Fail::new("history-dependent", format!("after a write into a sink that panicked after {limit} bytes (panic caught), the next write of the same mapping on this thread differs ({} vs {} bytes)", again.len(), a.len())));
        }
    }
    // ... nor of which object the mapping was derived from: a section taken after the parent was written
    if bytes.len() > 4 && bytes.len() < 200_000 {
        let cuts: Vec<usize> = std::iter::once(0).chain(bytes.iter().enumerate().filter(|(_, c)| **c == b'\n').map(|(i, _)| i + 1)).chain(std::iter::once(bytes.len())).collect();
        let (lo, hi) = (cuts[cuts.len() / 3], cuts[(2 * cuts.len() / 3).max(cuts.len() / 3)]);
        for (s, e) in [(lo, hi), (0, hi), (lo, bytes.len())] {
            if s >= e {
                continue;
            }
            st.evaluations += 1;
            let via_section = guarded(|| {
                let parent = proguard::ProguardMapping::new(bytes);
                let mut sink = Vec::new();
                let _ = proguard::ProguardCache::write(&parent, &mut sink);
                let _ = parent.has_line_info();
                let sec = parent.section(s..e);
                let mut out = Vec::new();
                proguard::ProguardCache::write(&sec, &mut out).map(|_| out).map_err(|e| e.to_string())
            })
            .and_then(|r| r)
            .map_err(|e| Fail::new("write-error", e))?;
            let direct = write_once(&bytes[s..e]).map_err(|e| Fail::new("write-error", e))?;
            if via_section != direct {
                return Err(Fail::new("section-dependent", format!("writing section({s}..{e}) of a mapping that was itself written before gives {} bytes, writing the same bytes as a new mapping gives {}", via_section.len(), direct.len())));
            }
            // and the other order: section first, then the parent
            let parent_after = guarded(|| {
                let parent = proguard::ProguardMapping::new(bytes);
                let sec = parent.section(s..e);
                let mut sink = Vec::new();
                let _ = proguard::ProguardCache::write(&sec, &mut sink);
                let _ = sec.has_line_info();
                let mut out = Vec::new();
                proguard::ProguardCache::write(&parent, &mut out).map(|_| out).map_err(|e| e.to_string())
            })
            .and_then(|r| r)
            .map_err(|e| Fail::new("write-error", e))?;
            if parent_after != a {
                return Err(Fail::new("section-dependent", format!("writing a mapping after one of its sections was written gives {} bytes instead of {}", parent_after.len(), a.len())));
            }
        }
    }
    // 8 concurrently running threads
    let results: Vec<Result<String, String>> = std::thread::scope(|sc| {
        let hs: Vec<_> = (0..8).map(|_| sc.spawn(|| write_once(bytes).map(|v| digest(&v)))).collect();
        hs.into_iter().map(|h| h.join().unwrap_or_else(|_| Err("thread panicked".into()))).collect()
    });
    st.evaluations += 8;
    for r in results {
        match r {
            Ok(x) if x == d => {}
            Ok(x) => return Err(Fail::new("threads-differ", format!("a concurrently running thread produced digest {x}, the main thread {d}"))),
            Err(e) => return Err(Fail::new("write-error", e)),
        }
    }
    Ok(d)
}

fn classify(case: &MapCase, st: &mut Stats) -> bool {
    let model = Model::new(&case.file);
    let mut strings = std::collections::HashSet::new();
    let mut group2 = false;
    let mut dup = false;
    for c in model.classes.values() {
        strings.insert(c.obf);
        strings.insert(c.orig);
        let mut groups: std::collections::HashMap<(&str, &str), usize> = Default::default();
        for e in &c.entries {
            strings.insert(e.m.obf.as_str());
            strings.insert(e.m.oname.as_str());
            if e.by_params {
                *groups.entry((e.m.obf.as_str(), e.m.args.as_str())).or_insert(0) += 1;
            } else if !e.inlined_callee {
                dup = true;
            }
        }
        if groups.values().any(|n| *n >= 2) {
            group2 = true;
        }
    }
    if model.classes.len() >= 10 {
        st.class("mapping with >=10 classes");
    }
    if dup {
        st.class("mapping with duplicate triples (de-dup set exercised)");
    }
    model.classes.len() >= 2 && strings.len() >= 3 && group2
}

pub fn run(ctx: &Ctx) -> Report {
    let mut rep = Report::new(ID, "exploration", ctx);
    rep.rule = format!("Cases: grammar-generated mappings (up to 12 class blocks), their degenerate variants (zero-length names in one slot per class block: obfuscated method names, sourceFile values, original names, obfuscated class name, arguments, foreign class), hostile token mutants (any bytes) and corpus files. Each mapping is written twice in the parent (two fresh writer invocations => differently seeded HashSet/HashMap instances), from 8 concurrently running threads, at 8 different buffer alignments, again after failed / truncated writes on the same thread, and by {CHILDREN} separately started child processes (fresh hash seeds, different allocation addresses; each child under a different environment — empty, TZ/LANG/LC_ALL, cwd=/, RUST_* variables, 200 padding variables, HOME/USER/TMPDIR/DEBUG/CI, glibc malloc perturbation — and with the mappings rotated so that the write history before a given mapping differs between children) that return digests (two 64-bit hashes + length), and by one helper process whose global allocator places every byte buffer at an address = k (mod 8) for k = 0..8. Oracle: all digests identical; output length == length implied by its own header. evaluations = write invocations compared. Non-trivial = distinct mappings with >=2 classes, >=3 distinct strings and >=1 by-params group of >=2 entries (so hash-ordered emission would have something to permute).");
    rep.assumptions = vec!["one platform (x86_64 Linux); endianness / pointer-width dependent ordering is out of reach".into()];
    let collected: Mutex<Vec<(Vec<u8>, String)>> = Mutex::new(Vec::new());
    rep.run_stage("tall", || tall_case(&cfg()), ctx.cases(40, 1_500), |case: &MapCase, st: &mut Stats| {
        st.class("tall mapping (hundreds of entries per class)");
        if classify(case, st) {
            st.nontrivial(case.hash());
        }
        check_in_process(&case.bytes(), st).map(|_| ())
    });
    let n = ctx.cases(2500, 120_000);
    rep.run_stage("ast", || map_case(&cfg()), n, |case: &MapCase, st: &mut Stats| {
        let bytes = case.bytes();
        if classify(case, st) {
            st.nontrivial(case.hash());
        }
        if st.want_sample() && case.file.blocks.len() >= 3 {
            st.sample(|| case.sample());
        }
        let d = check_in_process(&bytes, st)?;
        collected.lock().unwrap().push((bytes, d));
        Ok(())
    });
    // "every mapping" includes the degenerate ones: zero-length names in every slot (the string table cannot hold
    // them, the writer still has to be deterministic and consistent with its own header), and hostile token mutants
    rep.run_stage("degenerate", || map_case(&cfg()), ctx.cases(2500, 120_000), |case: &MapCase, st: &mut Stats| {
        let bytes = case.file.degenerate(case.key).render(&case.render);
        st.class("mapping with zero-length names");
        st.nontrivial(crate::engine::fnv64(&bytes));
        if st.want_sample() && case.file.blocks.len() >= 2 {
            st.sample(|| json!({"degenerate mapping": crate::engine::show_bytes(&bytes[..bytes.len().min(800)])}));
        }
        let d = check_in_process(&bytes, st)?;
        collected.lock().unwrap().push((bytes, d));
        Ok(())
    });
    let mcfg = GenCfg { plain_sourcefile_headers: true, ..cfg() };
    rep.run_stage("mutants", move || crate::gen::mutate::hostile_case(&mcfg), ctx.cases(2500, 120_000), |case: &crate::gen::mutate::MutCase, st: &mut Stats| {
        let bytes = case.bytes();
        st.class("hostile token mutant");
        st.nontrivial(crate::engine::fnv64(&bytes));
        let d = check_in_process(&bytes, st)?;
        collected.lock().unwrap().push((bytes, d));
        Ok(())
    });
    // corpus
    let mut all = collected.into_inner().unwrap();
    let mut cst = Stats::new();
    for p in super::c02::corpus_files() {
        if let Ok(b) = std::fs::read(&p) {
            for bytes in [b.clone(), crate::gen::mutate::to_crlf(&b)] {
                cst.cases += 1;
                match check_in_process(&bytes, &mut cst) {
                    Ok(d) => {
                        cst.nontrivial(crate::engine::fnv64(&bytes));
                        cst.class("corpus file");
                        all.push((bytes, d))
                    }
                    Err(f) => rep.fail("corpus", json!({"path": p}), f),
                }
            }
        }
    }
    rep.stats.merge(cst);
    // deterministic order for the children (shards finish in any order)
    all.sort();
    all.dedup();
    let mappings: Vec<Vec<u8>> = all.iter().map(|(b, _)| b.clone()).collect();
    match run_children(&mappings, CHILDREN) {
        Err(e) => {
            rep.stats.skipped.push(format!("cross-process stage could not run: {e}"));
            rep.stats.notes.push("cross-process stage skipped".into());
        }
        Ok(outs) => {
            for (ci, lines) in outs.iter().enumerate() {
                if lines.len() != all.len() {
                    rep.stats.skipped.push(format!("child {ci} returned {} lines for {} mappings", lines.len(), all.len()));
                    continue;
                }
                for (i, l) in lines.iter().enumerate() {
                    rep.stats.evaluations += 1;
                    if *l != all[i].1 {
                        rep.fail(
                            "xproc",
                            json!({"mapping_hex": hex(&all[i].0)}),
                            Fail::new("process-differs", format!("child process {ci} produced {l}, the parent {} for the same mapping ({} bytes): {}", all[i].1, all[i].0.len(), crate::engine::show_bytes(&all[i].0[..all[i].0.len().min(400)]))),
                        );
                        break;
                    }
                }
            }
            rep.stats.class_n("mappings re-written by 8 child processes", all.len() as u64);
        }
    }
    // the same mappings in a helper process whose allocator places byte buffers at addresses = k (mod 8), k = 0..8
    match run_skew_child(&mappings) {
        Err(e) => rep.stats.skipped.push(format!("skewed-allocator stage could not run: {e}")),
        Ok(lines) => {
            for (i, l) in lines.iter().enumerate() {
                rep.stats.evaluations += 8;
                if *l != all[i].1 {
                    rep.fail(
                        "xproc",
                        json!({"mapping_hex": hex(&all[i].0)}),
                        Fail::new("allocation-address-dependent", format!("under an allocator that places byte buffers at odd addresses the cache of a {}-byte mapping is {l}, the parent wrote {}", all[i].0.len(), all[i].1)),
                    );
                    break;
                }
            }
            rep.stats.class_n("mappings re-written under 8 allocation skews (byte buffers at addresses = k mod 8)", lines.len() as u64);
        }
    }
    super::scale::run(&mut rep, ctx, "C14");
    rep.run_enum("default-objects", &[0u8], super::common::check_default_objects);
    rep
}

pub fn replay(stage: &str, case: &Value) -> Check {
    if stage == "default-objects" {
        return super::common::check_default_objects(&0, &mut Stats::new());
    }
    if stage == "scale" {
        return super::scale::replay(case);
    }
    let mut st = Stats::new();
    let bytes = match stage {
        "ast" => {
            let c: MapCase = serde_json::from_value(case.clone()).map_err(|e| Fail::new("harness-replay", e.to_string()))?;
            c.bytes()
        }
        "degenerate" => {
            let c: MapCase = serde_json::from_value(case.clone()).map_err(|e| Fail::new("harness-replay", e.to_string()))?;
            c.file.degenerate(c.key).render(&c.render)
        }
        "mutants" => {
            let c: crate::gen::mutate::MutCase = serde_json::from_value(case.clone()).map_err(|e| Fail::new("harness-replay", e.to_string()))?;
            c.bytes()
        }
        "xproc" => unhex(case["mapping_hex"].as_str().unwrap_or("")),
        "corpus" => std::fs::read(case["path"].as_str().unwrap_or("")).map_err(|e| Fail::new("harness-replay", e.to_string()))?,
        _ => return Err(Fail::new("harness-replay", format!("unknown stage {stage}"))),
    };
    let d = check_in_process(&bytes, &mut st)?;
    let outs = run_children(&[bytes], CHILDREN).map_err(|e| Fail::new("harness-replay", e))?;
    for (ci, lines) in outs.iter().enumerate() {
        if lines.first() != Some(&d) {
            return Err(Fail::new("process-differs", format!("child {ci} produced {:?}, parent {d}", lines.first())));
        }
    }
    Ok(())
}

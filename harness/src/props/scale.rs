//! "Scale" cases: deterministic, structured mappings that cross count thresholds (255/256, 4096/4097,
//! 65535/65536/65537 entries per method, matching entries per line, methods per class, classes per file, distinct
//! strings). Random generation with small sizes never reaches these; seeded changes of round 2 showed that caps,
//! narrow index types and bounded lookup tables are a realistic class of regression.

use super::common::*;
use crate::api::Retracer;
use crate::engine::{Check, Ctx, Fail, Report, Stats, Tier};
use crate::gen::mapping::{Block, Item, MapFile, Method, OLines, Render};
use crate::gen::universe::Universe;
use crate::model::retrace::Model;
use crate::transcript::{check_class_model, check_lines_model, check_methods_model, check_params_model, compare_retracers, Extra, Kinds};
use serde::{Deserialize, Serialize};
use serde_json::json;
use std::collections::BTreeSet;

#[derive(Clone, Copy, Debug, Serialize, Deserialize, PartialEq, Eq)]
pub enum Kind {
    /// one method name with n entries, each on its own single-line range and with its own argument string
    ManyEntries,
    /// one method name with n range-less entries (all match every line) + one with n entries on the same range
    ManyMatching,
    /// the last class of the file has n distinct obfuscated method names in unsorted order
    ManyMethods,
    /// n classes
    ManyClasses,
    /// an entry, n filler methods (2n distinct strings), the same (obfuscated, original) name again
    Straddle,
    /// 500 classes x 1000 methods (sections > 16 MiB)
    Giant,
    /// one class with n sourceFile headers, each followed by a method
    ManyFiles,
    /// one method name with n entries on overlapping, non-identical ranges (i+1 ..= i+60)
    ManyOverlap,
    /// n class blocks in scrambled order of which the last third re-declares obfuscated names of the first two thirds
    /// with different content (the later block wins)
    DupClasses,
}

#[derive(Clone, Debug, Serialize, Deserialize)]
pub struct ScaleCase {
    pub kind: Kind,
    pub n: usize,
    pub prop: String,
}

fn method(obf: &str, oname: &str, args: &str, range: Option<(u64, u64)>, olines: OLines) -> Item {
    Item::Method(Method { range, ty: "void".into(), oclass: None, oname: oname.into(), args: args.into(), olines, obf: obf.into() })
}

fn positions(n: usize) -> Vec<usize> {
    let mut v: BTreeSet<usize> = BTreeSet::new();
    for p in [0usize, 1, 2, 15, 16, 17, 254, 255, 256, 257, 4094, 4095, 4096, 4097, 65534, 65535, 65536, 65537] {
        if p < n {
            v.insert(p);
        }
    }
    for p in [n.saturating_sub(2), n.saturating_sub(1), n / 2, n / 3] {
        if p < n {
            v.insert(p);
        }
    }
    v.into_iter().collect()
}

fn perm(i: usize, n: usize) -> usize {
    // a fixed permutation of 0..n (multiplication by an odd constant coprime to n is not guaranteed; use index reversal mix)
    (i * 7919 + 13) % n
}

pub fn build(kind: Kind, n: usize) -> (MapFile, Universe) {
    let mut oc = BTreeSet::new();
    let mut rc = BTreeSet::new();
    let mut om = BTreeSet::new();
    let rm = BTreeSet::new();
    let mut ps = BTreeSet::new();
    let mut ranges: Vec<(u64, u64)> = Vec::new();
    let mut blocks = vec![Block { orig: "com.example.Small".into(), obf: "s".into(), items: vec![method("x", "y", "", Some((1, 2)), OLines::None)] }];
    oc.insert("s".to_string());
    om.insert("x".to_string());
    match kind {
        Kind::ManyEntries => {
            let items = (0..n).map(|i| method("m", &format!("o{}", i % 7), &format!("p{i}"), Some((i as u64 + 1, i as u64 + 1)), OLines::S(7 * i as u64 + 3))).collect();
            blocks.push(Block { orig: "com.example.Big".into(), obf: "a".into(), items });
            oc.insert("a".into());
            om.insert("m".into());
            for p in positions(n) {
                ps.insert(format!("p{p}"));
                ranges.push((p as u64 + 1, p as u64 + 1));
            }
        }
        Kind::ManyMatching => {
            let mut items: Vec<Item> = (0..n).map(|i| method("k", "same", &format!("q{i}"), None, OLines::None)).collect();
            items.extend((0..n).map(|i| method("r", &format!("r{}", i % 3), "int", Some((1, 9)), OLines::S(i as u64))));
            // n entries that tie on (obfuscated name, arguments, start line) and differ only in the original name
            items.extend((0..n.min(5000)).map(|i| method("t", &format!("t{i}"), "", None, OLines::None)));
            // ... followed by repeats of early ones: they are duplicates however far back the first occurrence lies
            for back in [0usize, 1, 31, 32, 33, 255, 256] {
                if back < n.min(5000) {
                    items.push(method("t", &format!("t{back}"), "", None, OLines::None));
                }
            }
            blocks.push(Block { orig: "com.example.Match".into(), obf: "b".into(), items });
            oc.insert("b".into());
            om.insert("k".into());
            om.insert("r".into());
            om.insert("t".into());
            ps.insert(String::new());
            for p in positions(n) {
                ps.insert(format!("q{p}"));
            }
            ps.insert("int".into());
            ranges.push((1, 9));
        }
        Kind::ManyMethods => {
            let items = (0..n).map(|i| method(&format!("m{}", perm(i, n)), &format!("orig{i}"), "", None, OLines::None)).collect();
            blocks.push(Block { orig: "com.example.Wide".into(), obf: "c".into(), items });
            oc.insert("c".into());
            for p in positions(n) {
                om.insert(format!("m{p}"));
            }
            om.insert(format!("m{n}")); // unknown
        }
        Kind::ManyClasses => {
            for i in 0..n {
                blocks.push(Block { orig: format!("com.example.C{i}"), obf: format!("c{}", perm(i, n)), items: vec![method("x", &format!("y{i}"), "", Some((1, 1)), OLines::S(i as u64))] });
            }
            for p in positions(n) {
                oc.insert(format!("c{p}"));
                rc.insert(format!("c{p}x"));
            }
            rc.insert(format!("c{n}"));
            ranges.push((1, 1));
        }
        Kind::Straddle => {
            let mut items = vec![method("zz", "same", "", None, OLines::None)];
            items.extend((0..n).map(|i| method(&format!("f{i}"), &format!("g{i}"), "", None, OLines::None)));
            items.push(method("zz", "same", "int", None, OLines::None));
            blocks.push(Block { orig: "com.example.Straddle".into(), obf: "d".into(), items });
            oc.insert("d".into());
            om.insert("zz".into());
            for p in positions(n).into_iter().take(8) {
                om.insert(format!("f{p}"));
            }
            ps.insert("int".into());
        }
        Kind::ManyFiles => {
            let mut items = Vec::new();
            for i in 0..n {
                items.push(Item::SourceFile(format!("F{i}.kt")));
                items.push(method("m", &format!("o{}", i % 5), "", Some((i as u64 + 1, i as u64 + 1)), OLines::S(i as u64 + 100)));
            }
            blocks.push(Block { orig: "com.example.Files".into(), obf: "e".into(), items });
            oc.insert("e".into());
            om.insert("m".into());
            for p in positions(n) {
                ranges.push((p as u64 + 1, p as u64 + 1));
            }
        }
        Kind::ManyOverlap => {
            let items = (0..n).map(|i| method("v", &format!("o{}", i % 11), "", Some((i as u64 + 1, i as u64 + 60)), OLines::SE(1000 + i as u64, 1059 + i as u64))).collect();
            blocks.push(Block { orig: "com.example.Overlap".into(), obf: "f".into(), items });
            oc.insert("f".into());
            om.insert("v".into());
            for p in positions(n) {
                ranges.push((p as u64 + 1, p as u64 + 60));
            }
        }
        Kind::DupClasses => {
            let distinct = (2 * n / 3).max(1);
            for i in 0..n {
                let name = if i < distinct { perm(i, distinct) } else { perm(i * 5 + 1, distinct) };
                blocks.push(Block {
                    orig: format!("com.example.D{i}"),
                    obf: format!("d{name}"),
                    items: vec![method("x", &format!("y{i}"), &format!("p{i}"), Some((1, 1)), OLines::S(i as u64)), method(&format!("only{i}"), "z", "", None, OLines::None)],
                });
            }
            for p in 0..distinct.min(40) {
                oc.insert(format!("d{p}"));
            }
            for p in positions(distinct) {
                oc.insert(format!("d{p}"));
            }
            for p in positions(n).into_iter().chain(0..n.min(40)) {
                om.insert(format!("only{p}"));
                ps.insert(format!("p{p}"));
            }
            rc.insert(format!("d{n}"));
            ranges.push((1, 1));
        }
        Kind::Giant => {
            blocks.clear();
            for c in 0..500 {
                let items = (0..1000).map(|i| method(&format!("m{}", i % 50), &format!("o{i}"), &format!("p{}", i % 9), Some((i as u64 + 1, i as u64 + 3)), OLines::SE(i as u64 + 10, i as u64 + 12))).collect();
                blocks.push(Block { orig: format!("com.example.G{c}"), obf: format!("g{c:03}"), items });
            }
            oc.insert("g007".into());
            oc.insert("g499".into());
            om.insert("m7".into());
            ps.insert("p7".into());
            ranges.push((8, 10));
        }
    }
    let file = MapFile { prelude: vec![], blocks };
    let u = Universe::from_names(&oc, &rc, &om, &rm, &ps, &ranges, false);
    (file, u)
}

pub fn cases(ctx: &Ctx, prop: &str) -> Vec<ScaleCase> {
    let quick: &[usize] = &[256, 257, 4096, 4097];
    let thorough: &[usize] = &[255, 256, 257, 4095, 4096, 4097, 65535, 65536, 65537, 70000];
    let mut out = Vec::new();
    for kind in [Kind::ManyEntries, Kind::ManyMatching, Kind::ManyMethods, Kind::ManyClasses, Kind::Straddle, Kind::ManyFiles, Kind::ManyOverlap] {
        if matches!(kind, Kind::ManyFiles | Kind::ManyOverlap) {
            // thresholds of narrow per-class counters (u8 / 512-entry fast paths)
            for &n in &[255usize, 256, 257, 511, 512, 513, 4097] {
                out.push(ScaleCase { kind, n, prop: prop.to_string() });
            }
            continue;
        }
        for &n in ctx.tier.pick(quick, thorough) {
            out.push(ScaleCase { kind, n, prop: prop.to_string() });
        }
        if ctx.tier == Tier::Quick {
            // one case per kind beyond the 16-bit boundary even in the quick tier
            out.push(ScaleCase { kind, n: 65537, prop: prop.to_string() });
        }
    }
    // small counts densely: thresholds that come from somewhere else (a library's small-input path, an inline
    // capacity, a table with one entry too few) sit at 16, 20, 32, ... - cheaper to enumerate than to guess
    for kind in [Kind::ManyEntries, Kind::ManyMatching, Kind::ManyMethods, Kind::ManyClasses, Kind::Straddle, Kind::ManyFiles, Kind::ManyOverlap] {
        for n in 1..=40usize {
            out.push(ScaleCase { kind, n, prop: prop.to_string() });
        }
    }
    for n in (2..=48usize).chain([64, 65, 100, 257, 1000, 4097]) {
        out.push(ScaleCase { kind: Kind::DupClasses, n, prop: prop.to_string() });
    }
    // sections > 16 MiB: in the quick tier only for C09 (the layout decoder is the cheapest oracle for it)
    if prop == "C09" || (ctx.tier == Tier::Thorough && prop == "C14") {
        out.push(ScaleCase { kind: Kind::Giant, n: 500_000, prop: prop.to_string() });
    }
    out
}

pub fn check(c: &ScaleCase, st: &mut Stats) -> Check {
    let (file, u) = build(c.kind, c.n);
    let bytes = file.render(&Render::default());
    let case_hash = crate::engine::fnv64(format!("{:?}{}", c.kind, c.n).as_bytes());
    st.class(&format!("scale case {:?}", c.kind));
    st.nontrivial(case_hash);
    if st.want_sample() {
        st.sample(|| json!({"scale case": format!("{:?}", c.kind), "n": c.n, "mapping bytes": bytes.len(), "first lines": crate::engine::show_bytes(&bytes[..bytes.len().min(200)])}));
    }
    let model = Model::new(&file);
    match c.prop.as_str() {
        "C09" => {
            st.evaluations += 1;
            let buf = write_cache(&bytes)?;
            super::c09::check_bytes_layout(buf.bytes(), st)?;
            let l = crate::model::layout::decode(buf.bytes()).map_err(|e| Fail::new("layout-decode", e))?;
            super::c09::check_against_model(&l, &model).map_err(|(sig, msg)| Fail::new(&sig, crate::engine::truncate(&msg, 2000)))?;
            let cache = parse_cache(&buf)?;
            crate::engine::guarded(|| cache.0.test()).map_err(|p| Fail::new("self-test", format!("ProguardCache::test() rejected a freshly written file: {p}")))?;
            return Ok(());
        }
        "C14" => {
            let _ = super::c14::check_in_process(&bytes, st)?;
            return Ok(());
        }
        "C10" => return super::c10::check_bytes(&bytes, &u, 0, st),
        _ => {}
    }
    let m_plain = mapper(&bytes, false)?;
    let m_params = mapper(&bytes, true)?;
    let buf = write_cache(&bytes)?;
    let cache = parse_cache(&buf)?;
    let impls: [&dyn Retracer; 3] = [&m_plain, &m_params, &cache];
    no_panic("query", || {
        match c.prop.as_str() {
            "C01" => {
                for r in impls {
                    check_class_model(r, &model, &u, case_hash, st)?;
                    check_lines_model(r, &model, &u, case_hash, st, |_, _, _, _, _| {})?;
                }
            }
            "C02" => {
                compare_retracers(&m_params, &cache, &u, &Extra::default(), Kinds { class: true, method: true, line: true, params: true, ..Kinds::default() }, case_hash, st)?;
                compare_retracers(&m_plain, &m_params, &u, &Extra::default(), Kinds { class: true, method: true, line: true, ..Kinds::default() }, case_hash, st)?;
            }
            "C03" => {
                for r in [&m_params as &dyn Retracer, &cache] {
                    check_params_model(r, &model, &u, case_hash, st)?;
                }
            }
            "C04" => {
                for r in [&m_plain as &dyn Retracer, &cache] {
                    check_class_model(r, &model, &u, case_hash, st)?;
                    check_methods_model(r, &model, &u, case_hash, st)?;
                }
            }
            other => return Err(Fail::new("harness", format!("no scale check for {other}"))),
        }
        Ok(())
    })
    .map_err(|mut f| {
        f.msg = crate::engine::truncate(&f.msg, 1500);
        f.detail = json!({"scale": format!("{:?}", c.kind), "n": c.n});
        f
    })
}

pub fn run(rep: &mut Report, ctx: &Ctx, prop: &str) {
    let cs = cases(ctx, prop);
    rep.run_enum("scale", &cs, check);
}

pub fn replay(case: &serde_json::Value) -> Check {
    let c: ScaleCase = serde_json::from_value(case.clone()).map_err(|e| Fail::new("harness-replay", e.to_string()))?;
    check(&c, &mut Stats::new())
}

//! C16 — valid JVM descriptors deobfuscate to the right Java types, invalid ones to none.

use super::common::*;
use crate::api::{Retracer, SigOut};
use crate::engine::{fnv64, sample_n, Check, Ctx, Fail, Report, Stats};
use crate::gen::descriptor::{self, Desc, Ty};
use crate::gen::mapping::GenCfg;
use crate::model::retrace::Model;
use proptest::prelude::*;
use serde::{Deserialize, Serialize};
use serde_json::{json, Value};

pub const ID: &str = "C16";

pub fn cfg() -> GenCfg {
    GenCfg { plain_sourcefile_headers: false, max_blocks: 8, max_items: 2, long: 0, noise: false, ..GenCfg::default() }
}

pub const FIXED_MAPPING: &str = "com.example.A -> a.a:\norg.Long2 -> x.Long:\ncom.example.Iface -> I:\nü.Ö -> é.ü:\nLib2 -> Lib:\n";

fn sig_of(r: &dyn Retracer, s: &str) -> Result<Option<SigOut>, Fail> {
    no_panic("deobfuscate_signature", || Ok(r.sig(s)))
}

pub fn check_valid(rs: &[&dyn Retracer], lookup: &dyn Fn(&str) -> Option<String>, d: &Desc, st: &mut Stats) -> Check {
    let s = d.encode();
    let (params, ret, formatted) = d.expected(lookup);
    let want = SigOut { params, ret, formatted };
    if d.params.iter().chain(d.ret.iter()).any(|t| t.has_obj_or_array()) {
        st.nontrivial(fnv64(s.as_bytes()));
    }
    for r in rs {
        st.evaluations += 1;
        let got = sig_of(*r, &s)?;
        if got.as_ref() != Some(&want) {
            return Err(Fail::new("sig-valid", format!("{}: deobfuscate_signature({s:?}) = {got:?}, expected {want:?}", r.name())).with(json!({"impl": r.name(), "descriptor": s})));
        }
    }
    Ok(())
}

fn expect_none(rs: &[&dyn Retracer], s: &str, why: &str, st: &mut Stats) -> Check {
    for r in rs {
        st.evaluations += 1;
        let got = sig_of(*r, s)?;
        if got.is_some() {
            return Err(Fail::new("sig-invalid-accepted", format!("{}: deobfuscate_signature({s:?}) = {got:?}, expected None ({why})", r.name())).with(json!({"impl": r.name(), "descriptor": s, "why": why})));
        }
    }
    Ok(())
}

fn agree(rs: &[&dyn Retracer], s: &str, st: &mut Stats) -> Check {
    st.evaluations += 1;
    let a = sig_of(rs[0], s)?;
    for r in &rs[1..] {
        let b = sig_of(*r, s)?;
        if a != b {
            return Err(Fail::new("sig-mapper-vs-cache", format!("deobfuscate_signature({s:?}): {} = {a:?}, {} = {b:?}", rs[0].name(), r.name())).with(json!({"descriptor": s})));
        }
    }
    Ok(())
}

/// the three rejected shapes of the statement, as predicates over the string
fn rejected_shape(s: &str) -> Option<&'static str> {
    if !s.starts_with('(') {
        return Some("no leading '('");
    }
    if !s.contains(')') {
        return Some("no ')'");
    }
    if s.ends_with(')') {
        return Some("nothing after ')'");
    }
    None
}

/// "Unterminated" generated precisely: the ';' of the last object type of the parameter list, or of an
/// object return type, is removed.
pub fn unterminated_variants(d: &Desc) -> Vec<String> {
    let mut out = Vec::new();
    if let Some(last_obj) = d.params.iter().rposition(|t| t.is_obj()) {
        let mut s = String::from("(");
        for (i, p) in d.params.iter().enumerate() {
            let mut e = String::new();
            p.encode(&mut e);
            if i == last_obj {
                e.pop();
            }
            s.push_str(&e);
        }
        s.push(')');
        match &d.ret {
            Some(t) => t.encode(&mut s),
            None => s.push('V'),
        }
        out.push(s);
    }
    if let Some(t) = &d.ret {
        if t.is_obj() {
            let mut s = d.encode();
            s.pop();
            out.push(s);
        }
    }
    out
}

pub const EDIT_CHARS: &[char] = &['(', ')', ';', 'L', '[', 'I', 'V', '/', 'é', 'x', '漢'];

pub fn check_desc(rs: &[&dyn Retracer], lookup: &dyn Fn(&str) -> Option<String>, d: &Desc, edits: bool, st: &mut Stats) -> Check {
    check_valid(rs, lookup, d, st)?;
    let s = d.encode();
    // classes
    if d.params.is_empty() {
        st.class("0 params");
    }
    st.class(if d.ret.is_none() { "void return" } else { "non-void return" });
    let mut objs: Vec<&str> = Vec::new();
    fn collect<'a>(t: &'a Ty, out: &mut Vec<&'a str>, arrays: &mut bool) {
        match t {
            Ty::Obj(p) => out.push(p),
            Ty::Array(n, t) => {
                if *n >= 2 {
                    *arrays = true;
                }
                collect(t, out, arrays)
            }
            _ => {}
        }
    }
    let mut nested = false;
    for t in d.params.iter().chain(d.ret.iter()) {
        collect(t, &mut objs, &mut nested);
    }
    if nested {
        st.class("nested arrays");
    }
    if objs.iter().any(|p| lookup(&p.replace('/', ".")).is_some()) {
        st.class("mapped object type");
    }
    if objs.iter().any(|p| p.rsplit('/').next().map_or(false, |n| n.starts_with(|c: char| "ZBCSIJFDVL[".contains(c)))) {
        st.class("object name beginning with a primitive/marker letter");
    }
    if !s.is_ascii() {
        st.class("non-ASCII");
    }
    for u in unterminated_variants(d) {
        st.class("unterminated object type");
        st.nontrivial(fnv64(u.as_bytes()));
        expect_none(rs, &u, "unterminated object type", st)?;
    }
    // documented rejected shapes derived from the valid string
    let no_open = s[1..].to_string();
    let close = s.rfind(')').unwrap();
    let no_close = format!("{}{}", &s[..close], &s[close + 1..]);
    let no_ret = s[..=close].to_string();
    for (v, why) in [(no_open, "no leading '('"), (no_ret, "no return type")] {
        expect_none(rs, &v, why, st)?;
    }
    if !no_close.contains(')') {
        expect_none(rs, &no_close, "no ')'", st)?;
    }
    if edits {
        // every single-character delete / insert / replace: agreement and no panic; None where a rejected shape results
        let chars: Vec<char> = s.chars().collect();
        for i in 0..=chars.len() {
            let mut variants: Vec<String> = Vec::new();
            if i < chars.len() {
                let mut v = chars.clone();
                v.remove(i);
                variants.push(v.iter().collect());
                for c in EDIT_CHARS {
                    let mut v = chars.clone();
                    v[i] = *c;
                    variants.push(v.iter().collect());
                }
            }
            for c in EDIT_CHARS {
                let mut v = chars.clone();
                v.insert(i, *c);
                variants.push(v.iter().collect());
            }
            for v in variants {
                agree(rs, &v, st)?;
                if let Some(why) = rejected_shape(&v) {
                    expect_none(rs, &v, why, st)?;
                }
            }
        }
    }
    Ok(())
}

#[derive(Clone, Debug, Serialize, Deserialize)]
pub struct SigCase {
    pub map: MapCase,
}

pub fn check_case(case: &MapCase, st: &mut Stats) -> Check {
    let model = Model::new(&case.file);
    let bytes = case.bytes();
    let variants = mapper_variants(&bytes)?;
    let buf = write_cache(&bytes)?;
    let cache = parse_cache(&buf)?;
    let mut rs: Vec<&dyn Retracer> = variants.iter().map(|(m, _)| m as &dyn Retracer).collect();
    rs.push(&cache);
    let known: Vec<String> = model.classes.keys().map(|s| s.to_string()).collect();
    let lookup = |c: &str| model.class(c).map(|s| s.to_string());
    let descs: Vec<Desc> = sample_n(&descriptor::desc(&known), case.key ^ 0xc16, 12);
    for (i, d) in descs.iter().enumerate() {
        if st.want_sample() && d.params.len() >= 2 && i == 0 {
            st.sample(|| json!({"mapping": crate::engine::show_bytes(&bytes), "descriptor": d.encode(), "expected": format!("{:?}", d.expected(&lookup))}));
        }
        check_desc(&rs, &lookup, d, i < 2, st)?;
    }
    // strings beyond the JVM's own limits (256+ dimensions / parameters): agreement and no panic
    if case.key % 8 == 0 {
        for s in super::c13::limit_sigs() {
            agree(&rs, &s, st)?;
        }
        st.class("signature strings with >= 255 array dimensions / parameters");
    }
    // arbitrary unicode strings: agreement and no panic
    for s in sample_n(&prop_oneof!["\\PC{0,16}".boxed(), "[()\\[LIVJ;/éa漢]{0,14}".boxed()], case.key ^ 0x16c, 24) {
        agree(&rs, &s, st)?;
        if let Some(why) = rejected_shape(&s) {
            expect_none(&rs, &s, why, st)?;
        }
    }
    Ok(())
}

/// descriptors crossing size thresholds: many parameters, deep arrays, long names, many repetitions of one type
#[derive(Clone, Debug, Serialize, Deserialize)]
pub struct BigDesc {
    pub n_params: usize,
    pub dims: u8,
    pub name_len: usize,
    pub ret_obj: bool,
}

pub fn check_big(b: &BigDesc, st: &mut Stats) -> Check {
    let long_name = format!("x/{}", "n".repeat(b.name_len));
    let mapping = format!("{FIXED_MAPPING}com.example.LongName -> x.{}:\n", "n".repeat(b.name_len));
    let bytes = mapping.as_bytes();
    let m = mapper(bytes, false)?;
    let buf = write_cache(bytes)?;
    let cache = parse_cache(&buf)?;
    let rs: [&dyn Retracer; 2] = [&m, &cache];
    let dotted_long = long_name.replace('/', ".");
    let lookup = |c: &str| match c {
        "a.a" => Some("com.example.A".to_string()),
        "x.Long" => Some("org.Long2".to_string()),
        "I" => Some("com.example.Iface".to_string()),
        "é.ü" => Some("ü.Ö".to_string()),
        "Lib" => Some("Lib2".to_string()),
        c if c == dotted_long => Some("com.example.LongName".to_string()),
        _ => None,
    };
    let pool = [Ty::Prim('I'), Ty::Obj("a/a".into()), Ty::Obj(long_name.clone()), Ty::Array(b.dims.max(1), Box::new(Ty::Prim('J'))), Ty::Array(b.dims.max(1), Box::new(Ty::Obj("a/a".into()))), Ty::Obj("zz/U".into()), Ty::Array(1, Box::new(Ty::Prim('I')))];
    let params: Vec<Ty> = (0..b.n_params).map(|i| pool[(i * 5 + i / 7) % pool.len()].clone()).collect();
    let ret = if b.ret_obj { Some(Ty::Array(b.dims.max(1), Box::new(Ty::Obj(long_name.clone())))) } else { None };
    let d = Desc { params, ret };
    st.class("big descriptor (many params / deep arrays / long names)");
    check_desc(&rs, &lookup, &d, false, st).map_err(|mut f| {
        f.msg = crate::engine::truncate(&f.msg, 1200);
        f.detail = json!({"big": b});
        f
    })
}

/// Dense sweeps: every array rank 1..=255, every parameter count 0..=300 and every class-name length 1..=300 —
/// small integers are cheap to enumerate completely, and "boundary values" only cover the boundaries one thought of.
#[derive(Clone, Debug, Serialize, Deserialize)]
pub struct SweepChunk {
    /// 0 = array ranks, 1 = parameter counts, 2 = name lengths
    pub kind: u8,
    pub from: usize,
    pub to: usize,
}

pub fn check_sweep(c: &SweepChunk, st: &mut Stats) -> Check {
    for v in c.from..c.to {
        match c.kind {
            0 => {
                let bytes = FIXED_MAPPING.as_bytes();
                let m = mapper(bytes, false)?;
                let buf = write_cache(bytes)?;
                let cache = parse_cache(&buf)?;
                let rs: [&dyn Retracer; 2] = [&m, &cache];
                let table: Vec<(&str, &str)> = vec![("a.a", "com.example.A"), ("x.Long", "org.Long2"), ("I", "com.example.Iface"), ("é.ü", "ü.Ö"), ("Lib", "Lib2")];
                let lookup = |c: &str| table.iter().find(|(k, _)| *k == c).map(|(_, v)| v.to_string());
                let r = v as u8;
                let d = Desc {
                    params: vec![Ty::Array(r, Box::new(Ty::Prim('J'))), Ty::Prim('I'), Ty::Array(r, Box::new(Ty::Obj("a/a".into()))), Ty::Array(r, Box::new(Ty::Obj("zz/U".into())))],
                    ret: Some(Ty::Array(r, Box::new(Ty::Obj("x/Long".into())))),
                };
                st.class("sweep: every array rank 1..=255");
                check_desc(&rs, &lookup, &d, false, st).map_err(|mut f| {
                    f.msg = crate::engine::truncate(&f.msg, 900);
                    f.detail = json!({"array rank": v});
                    f
                })?;
            }
            1 => {
                st.class("sweep: every parameter count 0..=300");
                check_big(&BigDesc { n_params: v, dims: 1, name_len: 5, ret_obj: v % 2 == 0 }, st)?;
            }
            _ => {
                st.class("sweep: every class-name length 1..=300");
                check_big(&BigDesc { n_params: 3, dims: 2, name_len: v, ret_obj: true }, st)?;
            }
        }
    }
    Ok(())
}

/// Mass stage: very many *distinct* valid descriptors against ONE long-lived mapper and cache (any memo keyed by a
/// lossy digest of the signature needs many distinct keys before two of them collide).
#[derive(Clone, Debug, Serialize, Deserialize)]
pub struct MassChunk {
    pub start: u64,
    pub count: u64,
}

fn nth_desc(mut i: u64, ps: &[Ty], rets: &[Option<Ty>]) -> Desc {
    let ret = rets[(i % rets.len() as u64) as usize].clone();
    i /= rets.len() as u64;
    let mut params = Vec::new();
    // bijective base-|ps| numeration: every i gives a different parameter list
    while i > 0 {
        i -= 1;
        params.push(ps[(i % ps.len() as u64) as usize].clone());
        i /= ps.len() as u64;
    }
    Desc { params, ret }
}

/// The mass alphabet's i-th descriptor (used by C20's shared-instance mass stage to cross-check its fast composer).
pub fn nth_desc_pub(i: u64) -> Desc {
    let (mut ps, rets) = exhaustive_alphabet();
    ps.push(Ty::Obj("é/ü".into()));
    ps.push(Ty::Prim('Z'));
    ps.push(Ty::Obj("zz/U".into()));
    nth_desc(i, &ps, &rets)
}

pub fn check_mass(c: &MassChunk, st: &mut Stats) -> Check {
    let bytes = FIXED_MAPPING.as_bytes();
    let m = mapper(bytes, false)?;
    let buf = write_cache(bytes)?;
    let cache = parse_cache(&buf)?;
    let table: Vec<(&str, &str)> = vec![("a.a", "com.example.A"), ("x.Long", "org.Long2"), ("I", "com.example.Iface"), ("é.ü", "ü.Ö"), ("Lib", "Lib2")];
    let lookup = |c: &str| table.iter().find(|(k, _)| *k == c).map(|(_, v)| v.to_string());
    let (mut ps, rets) = exhaustive_alphabet();
    ps.push(Ty::Obj("é/ü".into()));
    ps.push(Ty::Prim('Z'));
    ps.push(Ty::Obj("zz/U".into()));
    st.class("mass stage: distinct descriptors on one long-lived mapper and cache");
    for i in c.start..c.start + c.count {
        let d = nth_desc(i, &ps, &rets);
        let s = d.encode();
        let (params, ret, formatted) = d.expected(&lookup);
        let want = SigOut { params, ret, formatted };
        st.evaluations += 2;
        for r in [&m as &dyn Retracer, &cache] {
            let got = sig_of(r, &s)?;
            if got.as_ref() != Some(&want) {
                return Err(Fail::new("sig-valid", format!("{}: deobfuscate_signature({s:?}) = {got:?}, expected {want:?} (descriptor #{i} asked of a long-lived instance)", r.name())).with(json!({"descriptor": s, "index": i})));
            }
        }
    }
    st.nontrivial(c.start ^ 0x16);
    Ok(())
}

#[derive(Clone, Debug, Serialize)]
pub struct ExhaustiveChunk {
    pub ret: usize,
}

pub fn exhaustive_alphabet() -> (Vec<Ty>, Vec<Option<Ty>>) {
    let params = vec![
        Ty::Prim('I'),
        Ty::Prim('J'),
        Ty::Array(1, Box::new(Ty::Prim('I'))),
        Ty::Obj("a/a".into()),
        Ty::Array(2, Box::new(Ty::Obj("x/Long".into()))),
        Ty::Obj("I".into()),
    ];
    let rets = vec![
        None,
        Some(Ty::Prim('I')),
        Some(Ty::Array(1, Box::new(Ty::Prim('J')))),
        Some(Ty::Obj("a/a".into())),
        Some(Ty::Obj("I".into())),
        Some(Ty::Array(2, Box::new(Ty::Obj("x/Long".into())))),
        Some(Ty::Obj("zz/U".into())),
    ];
    (params, rets)
}

pub fn check_exhaustive(c: &ExhaustiveChunk, st: &mut Stats) -> Check {
    let bytes = FIXED_MAPPING.as_bytes();
    let m = mapper(bytes, false)?;
    let buf = write_cache(bytes)?;
    let cache = parse_cache(&buf)?;
    let rs: [&dyn Retracer; 2] = [&m, &cache];
    let table: Vec<(&str, &str)> = vec![("a.a", "com.example.A"), ("x.Long", "org.Long2"), ("I", "com.example.Iface"), ("é.ü", "ü.Ö"), ("Lib", "Lib2")];
    let lookup = |c: &str| table.iter().find(|(k, _)| *k == c).map(|(_, v)| v.to_string());
    let (ps, rets) = exhaustive_alphabet();
    let ret = rets[c.ret].clone();
    let n = ps.len();
    for len in 0..=3usize {
        let mut idx = vec![0usize; len];
        loop {
            let d = Desc { params: idx.iter().map(|i| ps[*i].clone()).collect(), ret: ret.clone() };
            check_desc(&rs, &lookup, &d, len <= 2, st)?;
            let mut p = len;
            let mut done = true;
            while p > 0 {
                p -= 1;
                idx[p] += 1;
                if idx[p] < n {
                    done = false;
                    break;
                }
                idx[p] = 0;
            }
            if done {
                break;
            }
        }
    }
    Ok(())
}

pub fn run(ctx: &Ctx) -> Report {
    let mut rep = Report::new(ID, "exploration", ctx);
    rep.rule = "Generated: descriptor ASTs (0..6 parameters; primitives, objects mapped / unmapped / adversarial names such as I, Lib, x/Long, L, IL, ZBCSIJFD, V, non-ASCII, a$b; arrays nested <= 3) against generated mappings; bounded-exhaustive: all descriptors with <= 3 parameters over a 6-type alphabet x 7 return types (1813) against a fixed mapping; per descriptor the precisely generated unterminated variants (';' of the last object parameter / of an object return removed), the three documented rejected shapes, and (for a subset) every single-character delete/insert/replace over an 11-character edit alphabet; arbitrary Unicode strings. Oracle: valid => parameters_types/return_type/format_signature equal the rendering computed from the descriptor AST with class names resolved through the reference model's class table; rejected shapes => None; every string: mapper == cache, no panic. evaluations = deobfuscate_signature calls/comparisons. Non-trivial = distinct valid descriptors with >=1 object or array type, plus distinct unterminated variants.".into();
    rep.run_stage("ast", || map_case(&cfg()), ctx.cases(10_000, 450_000), check_case);
    let mut bigs = Vec::new();
    for n_params in [15usize, 16, 17, 254, 255, 256, 1000] {
        for dims in [1u8, 3, 254, 255] {
            for name_len in [126usize, 127, 128, 255, 256, 65535, 65536] {
                if (n_params >= 254 && name_len >= 65535) && ctx.tier == crate::engine::Tier::Quick {
                    continue;
                }
                bigs.push(BigDesc { n_params, dims, name_len, ret_obj: (n_params + name_len) % 2 == 0 });
            }
        }
    }
    rep.run_enum("big", &bigs, check_big);
    let mut sweeps = Vec::new();
    for from in (1..256).step_by(16) {
        sweeps.push(SweepChunk { kind: 0, from, to: (from + 16).min(256) });
    }
    for from in (0..301).step_by(25) {
        sweeps.push(SweepChunk { kind: 1, from, to: (from + 25).min(301) });
    }
    for from in (1..301).step_by(25) {
        sweeps.push(SweepChunk { kind: 2, from, to: (from + 25).min(301) });
    }
    rep.run_enum("sweep", &sweeps, check_sweep);
    rep.stats.exhaustive.push("every array rank 1..=255, parameter count 0..=300, class-name length 1..=300 (one descriptor shape each)".into());
    // descriptors over mappings with dozens to hundreds of classes whose names collide and repeat (the class table
    // the descriptor renderer looks names up in is then built from re-listed blocks)
    let max = ctx.tier.pick(80, 300);
    rep.run_stage("wide", move || super::c04::wide_case(max), ctx.cases(300, 6_000), check_case);
    let per = ctx.cases(40_000, 2_000_000);
    let mass: Vec<MassChunk> = (0..16u64).map(|k| MassChunk { start: 1 + k * per, count: per }).collect();
    rep.run_enum("mass", &mass, check_mass);
    let chunks: Vec<ExhaustiveChunk> = (0..7).map(|ret| ExhaustiveChunk { ret }).collect();
    rep.run_enum("exhaustive", &chunks, check_exhaustive);
    rep.stats.exhaustive.push("all descriptors with <=3 parameters over the 6-type alphabet x 7 return types".into());
    rep
}

pub fn replay(stage: &str, case: &Value) -> Check {
    let mut st = Stats::new();
    match stage {
        "ast" | "wide" => check_case(&serde_json::from_value(case.clone()).map_err(|e| Fail::new("harness-replay", e.to_string()))?, &mut st),
        "big" => check_big(&serde_json::from_value(case.clone()).map_err(|e| Fail::new("harness-replay", e.to_string()))?, &mut st),
        "sweep" => check_sweep(&serde_json::from_value(case.clone()).map_err(|e| Fail::new("harness-replay", e.to_string()))?, &mut st),
        "mass" => check_mass(&serde_json::from_value(case.clone()).map_err(|e| Fail::new("harness-replay", e.to_string()))?, &mut st),
        "exhaustive" => check_exhaustive(&ExhaustiveChunk { ret: case["ret"].as_u64().unwrap_or(0) as usize }, &mut st),
        _ => Err(Fail::new("harness-replay", format!("unknown stage {stage}"))),
    }
}

//! C11 — torn, foreign or wrong-version cache files are rejected, never half-read.

use super::common::*;
use crate::api::proguard as cur;
use crate::api::AlignedBuf;
use crate::engine::{guarded, Check, Ctx, Fail, Report, Stats};
use crate::gen::mapping::GenCfg;
use crate::gen::universe::Universe;
use crate::model::layout::{self, expected_parse, ExpectedParse, Header};
use crate::transcript::{compare_retracers, qhash, Kinds};
use proguard::CacheErrorKind;
use serde_json::{json, Value};

pub const ID: &str = "C11";

pub fn cfg() -> GenCfg {
    GenCfg { plain_sourcefile_headers: false, max_blocks: 8, long: 2, ..GenCfg::default() }
}

fn kind_of(k: CacheErrorKind) -> ExpectedParse {
    match k {
        CacheErrorKind::WrongEndianness => ExpectedParse::WrongEndianness,
        CacheErrorKind::WrongFormat => ExpectedParse::WrongFormat,
        CacheErrorKind::WrongVersion => ExpectedParse::WrongVersion,
        CacheErrorKind::InvalidHeader => ExpectedParse::InvalidHeader,
        CacheErrorKind::InvalidClasses => ExpectedParse::InvalidClasses,
        CacheErrorKind::InvalidMembers => ExpectedParse::InvalidMembers,
        CacheErrorKind::UnexpectedStringBytes { expected, found } => ExpectedParse::UnexpectedStringBytes { expected, found },
        _ => ExpectedParse::Ok, // unknown future kind: reported as mismatch by the caller
    }
}

fn parse_kind(bytes: &[u8]) -> Result<ExpectedParse, String> {
    guarded(|| match proguard::ProguardCache::parse(bytes) {
        Ok(_) => ExpectedParse::Ok,
        Err(e) => kind_of(e.kind()),
    })
}

/// Does the parse outcome `got` agree with what the layout implies (`want`)? The statement fixes the verdict for
/// buffers that are too SHORT for what the header declares and for foreign magic / version; a buffer that is LONGER than
/// header + sections + declared strings (trailing bytes) may be accepted or refused as a string-size mismatch — neither
/// contradicts the statement, so neither is reported.
fn verdict_agrees(got: &ExpectedParse, want: &ExpectedParse, len: usize, h: Option<&Header>) -> bool {
    if got == want {
        return true;
    }
    if let (ExpectedParse::Ok, Some(h)) = (want, h) {
        let (_, _, _, strings, _) = layout::offsets(h);
        if len >= strings && len - strings > h.string_bytes as usize {
            return matches!(got, ExpectedParse::UnexpectedStringBytes { expected, found } if *expected == h.string_bytes as usize && *found == len - strings);
        }
    }
    false
}

pub fn header_edits(h: &Header, key: u64) -> Vec<(String, u32, Header)> {
    let mut out = Vec::new();
    let magic = h.magic;
    let r = (key as u32) | 0x0101_0101;
    for (n, v) in [("magic=swapped", magic.swap_bytes()), ("magic=0", 0), ("magic+1", magic.wrapping_add(1)), ("magic=random", r ^ 0x5a5a_5a5a)] {
        out.push((n.to_string(), v, Header { magic: v, ..*h }));
    }
    for (n, v) in [("version=0", 0u32), ("version=2", 2), ("version=max", u32::MAX), ("version=random", (r | 2) & !1)] {
        out.push((n.to_string(), v, Header { version: v, ..*h }));
    }
    let edits = |x: u32| -> [(&'static str, u32); 6] {
        [("=0", 0), ("-1", x.wrapping_sub(1)), ("+1", x.wrapping_add(1)), ("*2", x.wrapping_mul(2)), ("=2^31", 1 << 31), ("=2^32-1", u32::MAX)]
    };
    for (n, v) in edits(h.num_classes) {
        out.push((format!("num_classes{n}"), v, Header { num_classes: v, ..*h }));
    }
    for (n, v) in edits(h.num_members) {
        out.push((format!("num_members{n}"), v, Header { num_members: v, ..*h }));
    }
    for (n, v) in edits(h.num_members_by_params) {
        out.push((format!("num_members_by_params{n}"), v, Header { num_members_by_params: v, ..*h }));
    }
    for (n, v) in edits(h.string_bytes) {
        out.push((format!("string_bytes{n}"), v, Header { string_bytes: v, ..*h }));
    }
    // every permutation of the four magic bytes (only the full reversal is "other endianness"), case variants
    let mb = magic.to_le_bytes();
    let idx = [0usize, 1, 2, 3];
    for a in idx {
        for b in idx {
            for c in idx {
                for d in idx {
                    if a != b && a != c && a != d && b != c && b != d && c != d {
                        let v = u32::from_le_bytes([mb[a], mb[b], mb[c], mb[d]]);
                        if v != magic {
                            out.push((format!("magic=perm{a}{b}{c}{d}"), v, Header { magic: v, ..*h }));
                        }
                    }
                }
            }
        }
    }
    out.push(("magic=lowercase".to_string(), u32::from_le_bytes(*b"prgc"), Header { magic: u32::from_le_bytes(*b"prgc"), ..*h }));
    // every single-bit flip of every header field
    for bit in 0..32u32 {
        let m = 1u32 << bit;
        out.push((format!("magic^bit{bit}"), h.magic ^ m, Header { magic: h.magic ^ m, ..*h }));
        out.push((format!("version^bit{bit}"), h.version ^ m, Header { version: h.version ^ m, ..*h }));
        out.push((format!("num_classes^bit{bit}"), h.num_classes ^ m, Header { num_classes: h.num_classes ^ m, ..*h }));
        out.push((format!("num_members^bit{bit}"), h.num_members ^ m, Header { num_members: h.num_members ^ m, ..*h }));
        out.push((format!("num_members_by_params^bit{bit}"), h.num_members_by_params ^ m, Header { num_members_by_params: h.num_members_by_params ^ m, ..*h }));
        out.push((format!("string_bytes^bit{bit}"), h.string_bytes ^ m, Header { string_bytes: h.string_bytes ^ m, ..*h }));
    }
    // versions that agree with 1 in one half / one byte only
    for v in [0x0001_0001u32, 0x0100_0001, 0x0000_0101, 0x0001_0000, 0x0100_0000, 0xffff_0001, 0x0000_ff01] {
        out.push((format!("version={v:#x}"), v, Header { version: v, ..*h }));
    }
    out
}

fn put_header(buf: &mut [u8], h: &Header) {
    for (i, v) in [h.magic, h.version, h.num_classes, h.num_members, h.num_members_by_params, h.string_bytes].iter().enumerate() {
        buf[i * 4..i * 4 + 4].copy_from_slice(&v.to_le_bytes());
    }
}

pub fn check_case(case: &MapCase, st: &mut Stats) -> Check {
    let bytes = case.bytes();
    let u = Universe::from_ast(&case.file, false);
    check_faults(&bytes, &u, case.key, case.hash(), st)
}

/// larger caches (thousands of records, sections of several hundred KiB)
pub fn check_scale(c: &super::scale::ScaleCase, st: &mut Stats) -> Check {
    let (file, u) = super::scale::build(c.kind, c.n);
    let bytes = file.render(&crate::gen::mapping::Render::default());
    st.class("scale case: every prefix of a large cache");
    check_faults(&bytes, &u, c.n as u64, crate::engine::fnv64(format!("{:?}{}", c.kind, c.n).as_bytes()), st)
}

pub fn check_faults(bytes: &[u8], u: &Universe, key: u64, case_hash: u64, st: &mut Stats) -> Check {
    let mut buf = write_cache(bytes)?;
    let full_len = buf.len();
    let header = layout::read_header(buf.bytes()).ok_or_else(|| Fail::new("layout-decode", "written file shorter than a header"))?;
    if expected_parse(full_len, Some(&header)) != ExpectedParse::Ok {
        return Err(Fail::new("layout-decode", format!("layout model does not accept the full file (len {full_len}, header {header:?})")));
    }
    let (c_at, m_at, b_at, s_at, _) = layout::offsets(&header);
    if st.want_sample() && header.num_classes >= 2 {
        st.sample(|| json!({"mapping": crate::engine::show_bytes(&bytes[..bytes.len().min(1500)]), "cache_len": full_len, "sections": {"classes": c_at, "members": m_at, "by_params": b_at, "strings": s_at},
            "faults": format!("every prefix 0..{} and {} header edits", full_len - 1, header_edits(&header, key).len())}));
    }
    // ---- every strict prefix
    let extra = derive_extra(u, key, 2, 0, 3);
    for p in 0..full_len {
        st.evaluations += 1;
        let slice = &buf.bytes()[..p];
        let h = layout::read_header(slice);
        let want = expected_parse(p, h.as_ref());
        let got = parse_kind(slice).map_err(|e| Fail::new("parse-panic", format!("parse panicked on the {p}-byte prefix: {e}")).with(json!({"prefix": p})))?;
        if p >= layout::HEADER_LEN {
            st.nontrivial(qhash(case_hash, b'P', &[&p.to_le_bytes()]));
            let sect = if p < m_at { "cut inside classes" } else if p < b_at { "cut inside members" } else if p < s_at { "cut inside by-params/padding" } else { "cut inside strings" };
            st.class(sect);
            if p == m_at || p == b_at || p == s_at {
                st.class("cut exactly at a section boundary");
            }
        }
        if got == ExpectedParse::Ok {
            // allowed only if the prefix answers everything like the full file
            let full = parse_cache(&buf)?;
            let pre = cur::C(proguard::ProguardCache::parse(slice).map_err(|e| Fail::new("harness", e.to_string()))?);
            let mut scratch = Stats::new();
            no_panic("query on accepted prefix", || compare_retracers(&full, &pre, u, &extra, Kinds::decoding(), case_hash, &mut scratch)).map_err(|f| {
                Fail::new("prefix-accepted-differs", format!("the {p}-byte prefix of a {full_len}-byte cache is accepted but answers differently: {}", f.msg)).with(json!({"prefix": p}))
            })?;
            st.class("strict prefix accepted and equivalent to the full file");
            continue;
        }
        if !verdict_agrees(&got, &want, p, h.as_ref()) {
            return Err(Fail::new("prefix-error-kind", format!("the {p}-byte prefix of a {full_len}-byte cache: parse says {got:?}, the layout implies {want:?}")).with(json!({"prefix": p, "header": format!("{header:?}")})));
        }
    }
    // ---- the same prefixes at an address that is 4 (not 8) mod 8: such a buffer satisfies the header's alignment but
    // not the sections'; whatever parse makes of it, a torn file must not be accepted and half-read
    {
        let mut shifted = AlignedBuf::new(&vec![0u8; full_len + 8]);
        shifted.bytes_mut()[4..4 + full_len].copy_from_slice(buf.bytes());
        let full = parse_cache(&buf)?;
        let step = (full_len / 600).max(1);
        for p in (0..=full_len).rev().step_by(step).chain(full_len.saturating_sub(12)..=full_len) {
            st.evaluations += 1;
            let slice = &shifted.bytes()[4..4 + p];
            let got = guarded(|| proguard::ProguardCache::parse(slice).map(cur::C).map_err(|e| e.kind())).map_err(|e| Fail::new("parse-panic", format!("parse panicked on the {p}-byte prefix at a 4-aligned address: {e}")))?;
            if let Ok(pre) = got {
                let mut scratch = Stats::new();
                no_panic("query on a buffer accepted at a 4-aligned address", || compare_retracers(&full, &pre, u, &extra, Kinds::decoding(), case_hash, &mut scratch)).map_err(|f| {
                    Fail::new("misaligned-accepted-differs", format!("the {p}-byte prefix of a {full_len}-byte cache placed at an address = 4 mod 8 is accepted but answers differently from the file: {}", f.msg)).with(json!({"prefix": p, "offset": 4}))
                })?;
                st.class("buffer at a 4-aligned address accepted and equivalent to the file");
            } else {
                st.class("buffer at a 4-aligned address rejected");
            }
        }
    }
    // ---- every single-field edit of the header
    let original: Vec<u8> = buf.bytes()[..layout::HEADER_LEN].to_vec();
    for (name, _v, h) in header_edits(&header, key) {
        if h == header {
            continue;
        }
        st.evaluations += 1;
        put_header(buf.bytes_mut(), &h);
        let want = expected_parse(full_len, Some(&h));
        let got = parse_kind(buf.bytes());
        buf.bytes_mut()[..layout::HEADER_LEN].copy_from_slice(&original);
        let got = got.map_err(|e| Fail::new("parse-panic", format!("parse panicked with header edit {name}: {e}")).with(json!({"edit": name})))?;
        if name.starts_with("num_") || name.starts_with("string_") {
            st.nontrivial(qhash(case_hash, b'H', &[name.as_bytes()]));
        }
        st.class(match want {
            ExpectedParse::Ok => "header edit that still fits (must parse)",
            ExpectedParse::WrongEndianness | ExpectedParse::WrongFormat | ExpectedParse::WrongVersion => "header edit: magic/version",
            _ => "header edit rejected by a section check",
        });
        if !verdict_agrees(&got, &want, full_len, Some(&h)) {
            return Err(Fail::new("header-edit-kind", format!("header edit {name} on a {full_len}-byte cache ({header:?}): parse says {got:?}, the layout implies {want:?}")).with(json!({"edit": name})));
        }
    }
    // ---- the magic / version verdicts do not depend on where the buffer lies or on how much follows the header:
    // the same edits on a copy at an address = 4 mod 8, cut to 24..=28 bytes and at full length
    {
        let mut shifted = AlignedBuf::new(&vec![0u8; full_len + 8]);
        shifted.bytes_mut()[4..4 + full_len].copy_from_slice(buf.bytes());
        for (name, _v, h) in header_edits(&header, key) {
            let want = expected_parse(full_len, Some(&h));
            if !matches!(want, ExpectedParse::WrongEndianness | ExpectedParse::WrongFormat | ExpectedParse::WrongVersion) {
                continue;
            }
            put_header(&mut shifted.bytes_mut()[4..], &h);
            for p in [24usize, 25, 26, 27, 28, full_len] {
                if p > full_len {
                    continue;
                }
                st.evaluations += 1;
                let got = parse_kind(&shifted.bytes()[4..4 + p]).map_err(|e| Fail::new("parse-panic", format!("parse panicked with header edit {name} at a 4-aligned address: {e}")))?;
                if got != want {
                    return Err(Fail::new("header-edit-kind", format!("header edit {name}, buffer of {p} bytes at an address = 4 mod 8: parse says {got:?}, the magic/version rule says {want:?}")).with(json!({"edit": name, "offset": 4, "len": p})));
                }
            }
            // and cut right behind the header at the aligned address
            put_header(buf.bytes_mut(), &h);
            for p in [24usize, 25, 27, 31, 32] {
                if p > full_len {
                    continue;
                }
                st.evaluations += 1;
                let got = parse_kind(&buf.bytes()[..p]);
                if let Ok(got) = &got {
                    if *got != want {
                        buf.bytes_mut()[..layout::HEADER_LEN].copy_from_slice(&original);
                        return Err(Fail::new("header-edit-kind", format!("header edit {name}, buffer cut to {p} bytes: parse says {got:?}, the magic/version rule says {want:?}")).with(json!({"edit": name, "len": p})));
                    }
                }
            }
            buf.bytes_mut()[..layout::HEADER_LEN].copy_from_slice(&original);
        }
        st.class("magic/version edits at a 4-aligned address and on buffers cut right behind the header");
    }
    // ---- foreign headers: magic and version edited together, fully byte-swapped header (file written on a
    // machine of the other endianness). The magic decides first: swapped => endianness, other => format.
    let magics = [header.magic.swap_bytes(), 0u32, header.magic.wrapping_add(1), (key as u32) | 0x0101_0101, u32::from_le_bytes(*b"PK\x03\x04"), u32::from_le_bytes(*b"com.")];
    let versions = [0u32, 2, u32::MAX, 1u32.swap_bytes(), (key >> 32) as u32 | 2];
    for m in magics {
        for v in versions {
            let mut h = Header { magic: m, version: v, ..header };
            for swap_counts in [false, true] {
                if swap_counts {
                    h.num_classes = h.num_classes.swap_bytes();
                    h.num_members = h.num_members.swap_bytes();
                    h.num_members_by_params = h.num_members_by_params.swap_bytes();
                    h.string_bytes = h.string_bytes.swap_bytes();
                }
                st.evaluations += 1;
                put_header(buf.bytes_mut(), &h);
                let want = expected_parse(full_len, Some(&h));
                let got = parse_kind(buf.bytes());
                buf.bytes_mut()[..layout::HEADER_LEN].copy_from_slice(&original);
                let got = got.map_err(|e| Fail::new("parse-panic", format!("parse panicked with foreign header {h:?}: {e}")))?;
                st.class("foreign header: magic and version both differ");
                st.nontrivial(qhash(case_hash, b'F', &[&m.to_le_bytes(), &v.to_le_bytes(), &[swap_counts as u8]]));
                if !verdict_agrees(&got, &want, full_len, Some(&h)) {
                    return Err(Fail::new("foreign-header-kind", format!("buffer with magic {m:#x} and version {v} ({full_len} bytes): parse says {got:?}, expected {want:?}")).with(json!({"magic": m, "version": v})));
                }
            }
        }
    }
    Ok(())
}

/// Foreign files handed to the cache parser: mapping text, zeros, random bytes.
pub fn check_foreign(bytes: &[u8], st: &mut Stats) -> Check {
    st.evaluations += 1;
    let buf = crate::api::AlignedBuf::new(bytes);
    let h = layout::read_header(buf.bytes());
    let want = expected_parse(buf.len(), h.as_ref());
    let got = parse_kind(buf.bytes()).map_err(|e| Fail::new("parse-panic", format!("parse panicked on a foreign buffer: {e}")))?;
    st.nontrivial(crate::engine::fnv64(bytes));
    st.class(match want {
        ExpectedParse::InvalidHeader => "foreign buffer shorter than a header",
        ExpectedParse::WrongFormat => "foreign buffer: wrong format",
        ExpectedParse::WrongEndianness => "foreign buffer: byte-swapped magic",
        _ => "foreign buffer: other",
    });
    if !verdict_agrees(&got, &want, buf.len(), h.as_ref()) {
        return Err(Fail::new("foreign-buffer-kind", format!("foreign buffer of {} bytes starting {:?}: parse says {got:?}, expected {want:?}", bytes.len(), crate::engine::show_bytes(&bytes[..bytes.len().min(32)]))).with(json!({"hex": crate::engine::hex(&bytes[..bytes.len().min(4096)])})));
    }
    Ok(())
}

#[derive(Clone, Debug, serde::Serialize, serde::Deserialize)]
pub struct ForeignCase {
    pub hex: String,
}

pub fn foreign_case() -> proptest::strategy::BoxedStrategy<ForeignCase> {
    use proptest::prelude::*;
    let cfg = cfg();
    prop_oneof![
        3 => proptest::collection::vec(any::<u8>(), 0..120).prop_map(|v| ForeignCase { hex: crate::engine::hex(&v) }),
        2 => (0usize..200).prop_map(|n| ForeignCase { hex: crate::engine::hex(&vec![0u8; n]) }),
        3 => map_case(&cfg).prop_map(|c| ForeignCase { hex: crate::engine::hex(&c.bytes()) }),
        2 => (proptest::collection::vec(any::<u8>(), 20..100), 0u32..4).prop_map(|(mut v, k)| {
            // random tail behind a magic that is right, swapped, or off by one
            let m = u32::from_le_bytes(*b"PRGC");
            let m = match k { 0 => m, 1 => m.swap_bytes(), 2 => m + 1, _ => m ^ 0x20 };
            v[..4].copy_from_slice(&m.to_le_bytes());
            ForeignCase { hex: crate::engine::hex(&v) }
        }),
    ]
    .boxed()
}

pub fn run(ctx: &Ctx) -> Report {
    let mut rep = Report::new(ID, "fault_enumeration", ctx);
    rep.rule = "Cases: valid caches written from grammar-generated mappings (0..~60 classes). Per cache, enumerated exhaustively: every strict prefix length 0..len-1 and every single-field edit of the 24-byte header (magic in {byte-swapped,0,+1,random}; version in {0,2,2^32-1,random}; each of the four counts in {0,-1,+1,*2,2^31,2^32-1}; all 23 other permutations of the magic bytes; every single-bit flip of each of the six header fields; versions agreeing with 1 in one half/byte), plus a grid of foreign headers where magic and version differ together (incl. fully byte-swapped headers), plus foreign buffers (mapping text, zeros, random bytes, random tails behind right/swapped/near-miss magic). Oracle: expected outcome computed from the documented layout (first section that does not fit decides InvalidClasses/InvalidMembers/UnexpectedStringBytes{expected,found}; magic/version rules); a prefix that is accepted must answer the whole universe like the full file. evaluations = parse calls. Non-trivial = distinct (file, fault) where the rejection depends on a section check (prefix >= 24 bytes, count edits).".into();
    rep.assumptions = vec!["buffers are 8-byte aligned (prefixes are sub-slices of an aligned buffer)".into()];
    let n = ctx.cases(10_000, 450_000);
    rep.run_stage("ast", || map_case(&cfg()), n, check_case);
    let mut scale: Vec<super::scale::ScaleCase> = Vec::new();
    for (kind, n) in [(super::scale::Kind::ManyClasses, 257usize), (super::scale::Kind::ManyClasses, 4097), (super::scale::Kind::ManyEntries, 4097), (super::scale::Kind::ManyMatching, 257)] {
        scale.push(super::scale::ScaleCase { kind, n, prop: "C11".into() });
    }
    if ctx.tier == crate::engine::Tier::Thorough {
        scale.push(super::scale::ScaleCase { kind: super::scale::Kind::ManyEntries, n: 65537, prop: "C11".into() });
        scale.push(super::scale::ScaleCase { kind: super::scale::Kind::ManyClasses, n: 65537, prop: "C11".into() });
    }
    rep.run_enum("scale", &scale, check_scale);
    rep.run_stage("foreign", foreign_case, ctx.cases(20_000, 900_000), |c: &ForeignCase, st: &mut Stats| check_foreign(&crate::engine::unhex(&c.hex), st));
    rep.stats.exhaustive.push("per generated cache: all strict prefixes, all listed single-field header edits, and a 6x5x2 grid of foreign (magic, version, byte-swapped counts) headers".into());
    rep
}

pub fn replay(stage: &str, case: &Value) -> Check {
    let mut st = Stats::new();
    match stage {
        "ast" => check_case(&serde_json::from_value(case.clone()).map_err(|e| Fail::new("harness-replay", e.to_string()))?, &mut st),
        "scale" => check_scale(&serde_json::from_value(case.clone()).map_err(|e| Fail::new("harness-replay", e.to_string()))?, &mut st),
        "foreign" => {
            let c: ForeignCase = serde_json::from_value(case.clone()).map_err(|e| Fail::new("harness-replay", e.to_string()))?;
            check_foreign(&crate::engine::unhex(&c.hex), &mut st)
        }
        _ => Err(Fail::new("harness-replay", format!("unknown stage {stage}"))),
    }
}

//! C05 — well-formed mapping lines parse to exactly their parts; malformed ones error.

use crate::engine::{fnv64, guarded, show_bytes, Check, Ctx, Fail, Report, Stats};
use crate::gen::mapping::{self, GenCfg, Item, Method, OLines};
use crate::model::lineparse::{recognise, same_record, LineMap, Rec};
use proptest::prelude::*;
use proptest::sample::select;
use serde::{Deserialize, Serialize};
use serde_json::{json, Value};

pub const ID: &str = "C05";

pub const TERMINATORS: &[&str] = &["", "\n", "\r\n", "\n\n", "\r"];

// ---------------------------------------------------------------------------------------------
// (a) generated record ASTs

#[derive(Clone, Debug, Serialize, Deserialize)]
pub enum LineAst {
    Class { orig: String, obf: String },
    Member(Item),
    /// header with whitespace padding: (pad0, key, pad1, Some((pad2, value, pad3)))
    Header { pad0: String, key: String, pad1: String, value: Option<(String, String, String)> },
}

#[derive(Clone, Debug, Serialize, Deserialize)]
pub struct LineCase {
    pub line: LineAst,
    pub term: u8,
    /// neighbours when embedded in a file
    pub before: Vec<String>,
    pub after: Vec<String>,
    /// which single documented violation to apply for the negative direction
    pub violation: u8,
}

fn num40() -> impl Strategy<Value = u64> {
    prop_oneof![
        4 => 0u64..70,
        2 => 0u64..100000,
        2 => (0u32..41).prop_map(|s| (1u64 << s) - 1),
        2 => (0u32..40).prop_map(|s| 1u64 << s),
        1 => 0u64..(1u64 << 40),
    ]
}

fn method40(cfg: &GenCfg) -> BoxedStrategy<Method> {
    (
        prop::option::weighted(0.7, (num40(), num40())),
        mapping::ty(cfg),
        mapping::foreign(cfg),
        mapping::orig_method(cfg),
        mapping::args(cfg),
        prop_oneof![
            1 => Just(OLines::None),
            1 => num40().prop_map(OLines::S),
            1 => (num40(), num40()).prop_map(|(a, b)| OLines::SE(a, b)),
        ],
        mapping::obf_method(cfg),
    )
        .prop_map(|(range, ty, oclass, oname, args, olines, obf)| Method { range, ty, oclass, oname, args, olines, obf })
        .boxed()
}

pub fn line_case() -> BoxedStrategy<LineCase> {
    let cfg = GenCfg { fresh: 45, long: 2, ..GenCfg::default() };
    let pad = || select(&["", " ", "  ", "\t", " \t "][..]).prop_map(|s| s.to_string());
    let key = select(&["compiler", "compiler_version", "min_api", "pg_map_id", "sourceFile", "a b", "é", "{\"id\"", "", "x-y.z"][..]).prop_map(|s| s.to_string());
    let value = select(&["R8", "2.0.74", "15", "", "a: b", "é ü", "\"com.android.tools.r8.mapping\",\"version\":\"2.0\"}", "x  y"][..]).prop_map(|s| s.to_string());
    let line = prop_oneof![
        2 => (mapping::orig_class(&cfg), mapping::obf_class(&cfg)).prop_map(|(orig, obf)| LineAst::Class { orig, obf }),
        6 => method40(&cfg).prop_map(|m| LineAst::Member(Item::Method(m))),
        2 => (mapping::ty(&cfg), mapping::orig_method(&cfg), mapping::obf_method(&cfg)).prop_map(|(ty, orig, obf)| LineAst::Member(Item::Field { ty, orig, obf })),
        1 => mapping::file_name(&cfg).prop_map(|n| LineAst::Member(Item::SourceFile(n))),
        2 => (pad(), key, pad(), prop::option::weighted(0.7, (pad(), value, pad()))).prop_map(|(pad0, key, pad1, value)| LineAst::Header { pad0, key, pad1, value }),
    ];
    let neighbour = select(&["com.example.Foo -> a:", "    void m() -> b", "garbage", "# compiler: R8", "    1:1:void x():2 -> y", ""][..]).prop_map(|s| s.to_string());
    (line, 0u8..TERMINATORS.len() as u8, proptest::collection::vec(neighbour.clone(), 0..3), proptest::collection::vec(neighbour, 0..3), any::<u8>())
        .prop_map(|(line, term, before, after, violation)| LineCase { line, term, before, after, violation })
        .boxed()
}

/// Owned expected record
#[derive(Clone, Debug, PartialEq, Eq)]
pub enum Want {
    Header { key: String, value: Option<String> },
    Class { original: String, obfuscated: String },
    Field { ty: String, original: String, obfuscated: String },
    Method { ty: String, original: String, obfuscated: String, arguments: String, original_class: Option<String>, line_mapping: Option<LineMap> },
}

pub fn want_matches(w: &Want, got: &proguard::ProguardRecord) -> bool {
    let rec = match w {
        Want::Header { key, value } => Rec::Header { key, value: value.as_deref() },
        Want::Class { original, obfuscated } => Rec::Class { original, obfuscated },
        Want::Field { ty, original, obfuscated } => Rec::Field { ty, original, obfuscated },
        Want::Method { ty, original, obfuscated, arguments, original_class, line_mapping } => Rec::Method {
            ty,
            original,
            obfuscated,
            arguments,
            original_class: original_class.as_deref(),
            line_mapping: line_mapping.clone(),
            raw_range: None,
            raw_olines: (None, None),
        },
    };
    same_record(&rec, got)
}

pub fn print_and_expect(l: &LineAst) -> (String, Want) {
    match l {
        LineAst::Class { orig, obf } => (format!("{orig} -> {obf}:"), Want::Class { original: orig.clone(), obfuscated: obf.clone() }),
        LineAst::Member(it) => {
            let text = mapping::render_item(it);
            let want = match it {
                Item::Method(m) => Want::Method {
                    ty: m.ty.clone(),
                    original: m.oname.clone(),
                    obfuscated: m.obf.clone(),
                    arguments: m.args.clone(),
                    original_class: m.oclass.clone(),
                    line_mapping: m.usable().map(|(s, e)| {
                        let (os, oe) = match m.olines {
                            OLines::None => (None, None),
                            OLines::S(a) => (Some(a), None),
                            OLines::SE(a, b) => (Some(a), Some(b)),
                        };
                        LineMap { start: s, end: e, ostart: os, oend: oe }
                    }),
                },
                Item::Field { ty, orig, obf } => Want::Field { ty: ty.clone(), original: orig.clone(), obfuscated: obf.clone() },
                Item::SourceFile(n) => Want::Header { key: "sourceFile".into(), value: Some(n.clone()) },
                _ => unreachable!("only record items are generated"),
            };
            (text, want)
        }
        LineAst::Header { pad0, key, pad1, value } => {
            // keys never contain ':' or line terminators; padding is spaces/tabs only
            let mut text = format!("#{pad0}{key}{pad1}");
            let want = match value {
                Some((p2, v, p3)) => {
                    text.push_str(&format!(":{p2}{v}{p3}"));
                    Want::Header { key: key.trim().to_string(), value: Some(v.trim().to_string()) }
                }
                None => Want::Header { key: key.trim().to_string(), value: None },
            };
            (text, want)
        }
    }
}

fn strip_term(b: &[u8]) -> &[u8] {
    let mut e = b.len();
    while e > 0 && (b[e - 1] == b'\n' || b[e - 1] == b'\r') {
        e -= 1;
    }
    &b[..e]
}

pub const VIOLATIONS: &[&str] = &["arrow missing", "arrow unspaced", "arrow half-spaced (left)", "arrow half-spaced (right)", "class colon missing", "indent 0", "indent 2", "indent 3", "indent 5", "indent tab", "start line without end line", "return type missing"];

/// Apply exactly one documented violation to a well-formed line; None when it does not apply to this line kind.
pub fn violate(l: &LineAst, text: &str, which: usize) -> Option<(String, &'static str)> {
    let name = VIOLATIONS[which % VIOLATIONS.len()];
    let is_class = matches!(l, LineAst::Class { .. });
    let is_member = matches!(l, LineAst::Member(Item::Method(_)) | LineAst::Member(Item::Field { .. }));
    if !is_class && !is_member {
        return None;
    }
    // the arrow of the record is the last " -> " (names never contain one)
    let arrow_at = text.rfind(" -> ")?;
    let out = match name {
        "arrow missing" => format!("{} {}", &text[..arrow_at], &text[arrow_at + 4..]),
        "arrow unspaced" => format!("{}->{}", &text[..arrow_at], &text[arrow_at + 4..]),
        "arrow half-spaced (left)" => format!("{} ->{}", &text[..arrow_at], &text[arrow_at + 4..]),
        "arrow half-spaced (right)" => format!("{}-> {}", &text[..arrow_at], &text[arrow_at + 4..]),
        "class colon missing" if is_class => text.strip_suffix(':')?.to_string(),
        "indent 0" if is_member => text[4..].to_string(),
        "indent 2" if is_member => text[2..].to_string(),
        "indent 3" if is_member => text[1..].to_string(),
        "indent 5" if is_member => format!(" {text}"),
        "indent tab" if is_member => format!("\t{}", &text[4..]),
        "start line without end line" => match l {
            LineAst::Member(Item::Method(m)) if m.range.is_some() => {
                let (s, _) = m.range.unwrap();
                let body = &text[4..];
                let rest = body.splitn(3, ':').nth(2)?;
                format!("    {s}:{rest}")
            }
            _ => return None,
        },
        "return type missing" => match l {
            LineAst::Member(Item::Method(m)) => {
                let prefix = match m.range {
                    Some((a, b)) => format!("    {a}:{b}:"),
                    None => "    ".to_string(),
                };
                let rest = text.strip_prefix(&prefix)?.strip_prefix(&m.ty)?.strip_prefix(' ')?;
                format!("{prefix}{rest}")
            }
            LineAst::Member(Item::Field { ty, .. }) => {
                let rest = text.strip_prefix("    ")?.strip_prefix(ty.as_str())?.strip_prefix(' ')?;
                format!("    {rest}")
            }
            _ => return None,
        },
        _ => return None,
    };
    Some((out, name))
}

fn check_exact(text: &[u8], want: &Want, ctx: &str) -> Check {
    match guarded(|| proguard::ProguardRecord::try_parse(text).map(|r| want_matches(want, &r)).map_err(|e| format!("{:?} line={:?}", e.kind(), show_bytes(e.line())))) {
        Err(p) => Err(Fail::new("parse-panic", format!("try_parse panicked on {:?}: {p}", show_bytes(text)))),
        Ok(Ok(true)) => Ok(()),
        Ok(Ok(false)) => {
            let got = format!("{:?}", proguard::ProguardRecord::try_parse(text));
            Err(Fail::new("wrong-record", format!("{ctx}: {:?} parsed to {got}, expected {want:?}", show_bytes(text))).with(json!({"line": show_bytes(text), "expected": format!("{want:?}"), "got": got})))
        }
        Ok(Err(e)) => Err(Fail::new("wellformed-rejected", format!("{ctx}: well-formed line {:?} rejected: {e}; expected {want:?}", show_bytes(text))).with(json!({"line": show_bytes(text)}))),
    }
}

fn check_must_err(text: &[u8], kind: &str) -> Check {
    match guarded(|| proguard::ProguardRecord::try_parse(text).map(|r| format!("{r:?}")).map_err(|e| e.line().to_vec())) {
        Err(p) => Err(Fail::new("parse-panic", format!("try_parse panicked on {:?}: {p}", show_bytes(text)))),
        Ok(Ok(rec)) => Err(Fail::new("malformed-accepted", format!("line with the single violation '{kind}' was accepted: {:?} -> {rec}", show_bytes(text))).with(json!({"line": show_bytes(text), "violation": kind}))),
        Ok(Err(line)) => {
            if strip_term(&line) != strip_term(text) {
                return Err(Fail::new("error-line", format!("error for {:?} carries line {:?}", show_bytes(text), show_bytes(&line))));
            }
            Ok(())
        }
    }
}

/// Parse a file and return the items as (Ok(debug) | Err(line)).
fn file_items(bytes: &[u8]) -> Result<Vec<Result<proguard::ProguardRecord<'_>, Vec<u8>>>, String> {
    guarded(|| proguard::ProguardMapping::new(bytes).iter().map(|r| r.map_err(|e| e.line().to_vec())).collect())
}

pub fn check_line_case(c: &LineCase, st: &mut Stats) -> Check {
    let (text, want) = print_and_expect(&c.line);
    let term = TERMINATORS[c.term as usize % TERMINATORS.len()];
    let h = fnv64(text.as_bytes());
    let optional = match &c.line {
        LineAst::Member(Item::Method(m)) => {
            let combo = format!("optional parts: range={} class={} olines={}", m.range.is_some(), m.oclass.is_some(), match m.olines { OLines::None => "none", OLines::S(_) => "os", OLines::SE(..) => "os:oe" });
            st.class(&combo);
            if m.range.map_or(false, |(a, b)| a >= (1 << 32) || b >= (1 << 32)) {
                st.class("numbers >= 2^32");
            }
            m.range.is_some() || m.oclass.is_some() || m.olines != OLines::None
        }
        LineAst::Header { value, .. } => value.is_some(),
        _ => false,
    };
    if optional {
        st.nontrivial(h);
    }
    if !text.is_ascii() {
        st.class("non-ASCII names");
    }
    if st.want_sample() && optional {
        st.sample(|| json!({"line": text, "terminator": term, "expected": format!("{want:?}")}));
    }
    // alone, with the terminator
    st.evaluations += 1;
    let single = format!("{text}{term}");
    check_exact(single.as_bytes(), &want, "single line")?;
    // embedded in a file: the record must appear, exactly once more than in the file without it
    st.evaluations += 1;
    let mut file = String::new();
    for b in &c.before {
        file.push_str(b);
        file.push('\n');
    }
    // blank trailing input yields a phantom error item with an empty line; such items are not records of any line
    let real = |items: &Vec<Result<proguard::ProguardRecord<'_>, Vec<u8>>>| items.iter().filter(|i| !matches!(i, Err(l) if strip_term(l).is_empty())).count();
    let idx_before = {
        let items = file_items(file.as_bytes()).map_err(|p| Fail::new("parse-panic", p))?;
        real(&items)
    };
    file.push_str(&text);
    file.push_str(if term.is_empty() { "\n" } else { term });
    for a in &c.after {
        file.push_str(a);
        file.push('\n');
    }
    let items = file_items(file.as_bytes()).map_err(|p| Fail::new("parse-panic", p))?;
    let items: Vec<_> = items.into_iter().filter(|i| !matches!(i, Err(l) if strip_term(l).is_empty())).collect();
    // the same record through the iterator adaptors (CRLF / blank lines between records must not shift them)
    {
        let raw = file_items(file.as_bytes()).map_err(|p| Fail::new("parse-panic", p))?;
        let raw_idx = raw.iter().enumerate().filter(|(_, i)| !matches!(i, Err(l) if strip_term(l).is_empty())).nth(idx_before).map(|(i, _)| i);
        if let Some(ri) = raw_idx {
            st.evaluations += 1;
            let via_nth = guarded(|| proguard::ProguardMapping::new(file.as_bytes()).iter().nth(ri).map(|i| i.map_err(|e| e.line().to_vec()))).map_err(|p| Fail::new("parse-panic", p))?;
            let via_skip = guarded(|| proguard::ProguardMapping::new(file.as_bytes()).iter().skip(ri).next().map(|i| i.map_err(|e| e.line().to_vec()))).map_err(|p| Fail::new("parse-panic", p))?;
            for (how, got) in [("nth", via_nth), ("skip", via_skip)] {
                match got {
                    Some(Ok(r)) if want_matches(&want, &r) => {}
                    other => {
                        return Err(Fail::new("wrong-record-via-adaptor", format!("line {text:?} embedded in {:?}: iter().{how}({ri}) gives {other:?}, expected {want:?}", show_bytes(file.as_bytes()))));
                    }
                }
            }
        }
    }
    match items.get(idx_before) {
        Some(Ok(r)) if want_matches(&want, r) => {}
        other => {
            return Err(Fail::new("wrong-record-in-file", format!("line {text:?} embedded in {:?}: item {idx_before} is {other:?}, expected {want:?}", show_bytes(file.as_bytes()))).with(json!({"file": show_bytes(file.as_bytes())})));
        }
    }
    // negative direction: exactly one documented violation
    if let Some((bad, kind)) = violate(&c.line, &text, c.violation as usize) {
        st.evaluations += 1;
        st.class(&format!("violation: {kind}"));
        st.nontrivial(fnv64(bad.as_bytes()) ^ 0x55);
        check_must_err(format!("{bad}{term}").as_bytes(), kind)?;
    }
    Ok(())
}

// ---------------------------------------------------------------------------------------------
// (b) bounded-exhaustive slot product

#[derive(Clone, Debug, Serialize)]
pub struct SlotLine {
    pub text: String,
    pub bad: Vec<&'static str>,
    #[serde(skip)]
    pub want: Option<Want>,
}

pub fn slot_product() -> Vec<SlotLine> {
    let mut out = Vec::new();
    let indents: &[(&str, Option<&'static str>)] = &[("    ", None), ("", Some("indent 0")), ("  ", Some("indent 2")), ("     ", Some("indent 5")), ("\t", Some("indent tab"))];
    let ranges: &[(&str, Option<(u64, u64)>, Option<&'static str>)] = &[
        ("", None, None),
        ("1:2:", Some((1, 2)), None),
        ("0:0:", Some((0, 0)), None),
        ("5:5:", Some((5, 5)), None),
        ("0:7:", Some((0, 7)), None),
        ("1099511627775:3:", Some((1099511627775, 3)), None),
        ("1:", None, Some("start line without end line")),
    ];
    let types: &[(&str, Option<&'static str>)] = &[("void ", None), ("a.b[] ", None), ("é ", None), ("", Some("return type missing"))];
    let names: &[(&str, Option<&str>, &str)] = &[("m", None, "m"), ("C.m", Some("C"), "m"), ("a.b.C$1.<init>", Some("a.b.C$1"), "<init>")];
    let argss: &[Option<&str>] = &[Some(""), Some("int"), Some("a,b"), None];
    let olines: &[(&str, Option<u64>, Option<u64>)] = &[("", None, None), (":3", Some(3), None), (":3:4", Some(3), Some(4)), (":0:0", Some(0), Some(0))];
    let arrows: &[(&str, Option<&'static str>)] = &[(" -> ", None), ("->", Some("arrow unspaced")), (" ", Some("arrow missing")), (" ->", Some("arrow half-spaced")), ("-> ", Some("arrow half-spaced"))];
    let obfs = ["x", "<init>"];
    for (ind, ind_bad) in indents {
        for (rng, rng_v, rng_bad) in ranges {
            for (ty, ty_bad) in types {
                for (name, ncls, nname) in names {
                    for args in argss {
                        for (ol, os, oe) in olines {
                            if args.is_none() && (!ol.is_empty() || !rng.is_empty()) {
                                continue; // fields carry neither range nor original lines in the documented grammar
                            }
                            if args.is_none() && ncls.is_some() {
                                continue;
                            }
                            for (arrow, arrow_bad) in arrows {
                                for obf in obfs {
                                    for term in ["", "\n", "\r\n", "\n\n"] {
                                        let mut text = String::new();
                                        text.push_str(ind);
                                        text.push_str(rng);
                                        text.push_str(ty);
                                        text.push_str(name);
                                        if let Some(a) = args {
                                            text.push('(');
                                            text.push_str(a);
                                            text.push(')');
                                        }
                                        text.push_str(ol);
                                        text.push_str(arrow);
                                        text.push_str(obf);
                                        text.push_str(term);
                                        let bad: Vec<&'static str> = [*ind_bad, *rng_bad, *ty_bad, *arrow_bad].into_iter().flatten().collect();
                                        let want = if bad.is_empty() {
                                            let tyv = ty.trim_end().to_string();
                                            Some(match args {
                                                Some(a) => Want::Method {
                                                    ty: tyv,
                                                    original: nname.to_string(),
                                                    obfuscated: obf.to_string(),
                                                    arguments: a.to_string(),
                                                    original_class: ncls.map(|s| s.to_string()),
                                                    line_mapping: match rng_v {
                                                        Some((s, e)) if *s > 0 && *e > 0 => Some(LineMap { start: *s, end: *e, ostart: *os, oend: *oe }),
                                                        _ => None,
                                                    },
                                                },
                                                None => Want::Field { ty: tyv, original: name.to_string(), obfuscated: obf.to_string() },
                                            })
                                        } else {
                                            None
                                        };
                                        out.push(SlotLine { text, bad, want });
                                    }
                                }
                            }
                        }
                    }
                }
            }
        }
    }
    // class lines
    for orig in ["a.B", "é", "a$b"] {
        for (arrow, arrow_bad) in arrows {
            for obf in ["x", "a.b.c"] {
                for (colon, colon_bad) in [(":", None), ("", Some("class colon missing"))] {
                    for term in ["", "\n", "\r\n", "\n\n"] {
                        let text = format!("{orig}{arrow}{obf}{colon}{term}");
                        let bad: Vec<&'static str> = [*arrow_bad, colon_bad].into_iter().flatten().collect();
                        let want = if bad.is_empty() { Some(Want::Class { original: orig.to_string(), obfuscated: obf.to_string() }) } else { None };
                        out.push(SlotLine { text, bad, want });
                    }
                }
            }
        }
    }
    // header lines
    for p0 in ["", " ", "  "] {
        for key in ["compiler", "min_api", "a b", ""] {
            for p1 in ["", " "] {
                for value in [None, Some("R8"), Some(""), Some("x: y")] {
                    for p2 in ["", " ", "\t"] {
                        for term in ["", "\n", "\r\n", "\n\n"] {
                            let mut text = format!("#{p0}{key}{p1}");
                            if let Some(v) = value {
                                text.push_str(&format!(":{p2}{v}{p2}"));
                            } else if !p2.is_empty() {
                                continue;
                            }
                            text.push_str(term);
                            let want = Want::Header { key: key.trim().to_string(), value: value.map(|v| v.trim().to_string()) };
                            out.push(SlotLine { text, bad: vec![], want: Some(want) });
                        }
                    }
                }
            }
        }
    }
    for name in ["Foo.kt", "R8$$SyntheticClass", "é ü.kt", "a:b", ""] {
        for term in ["", "\n", "\r\n", "\n\n"] {
            out.push(SlotLine {
                text: format!("# {{\"id\":\"sourceFile\",\"fileName\":\"{name}\"}}{term}"),
                bad: vec![],
                want: Some(Want::Header { key: "sourceFile".into(), value: Some(name.to_string()) }),
            });
        }
    }
    out
}

pub fn check_slot(l: &SlotLine, st: &mut Stats) -> Check {
    st.evaluations += 1;
    match (&l.want, l.bad.len()) {
        (Some(w), 0) => {
            st.nontrivial(fnv64(l.text.as_bytes()));
            st.class("slot product: well-formed");
            check_exact(l.text.as_bytes(), w, "slot product")
        }
        (_, 1) => {
            st.nontrivial(fnv64(l.text.as_bytes()));
            st.class(&format!("slot product single violation: {}", l.bad[0]));
            check_must_err(l.text.as_bytes(), l.bad[0])
        }
        _ => {
            st.class("slot product: >=2 violations (totality only)");
            guarded(|| {
                let _ = proguard::ProguardRecord::try_parse(l.text.as_bytes());
            })
            .map_err(|p| Fail::new("parse-panic", format!("try_parse panicked on {:?}: {p}", l.text)))
        }
    }
}

// ---------------------------------------------------------------------------------------------
// (c) bounded-exhaustive token strings against the strict recogniser

pub const TOKENS: &[&str] = &["    ", "1:2:", "V ", "m", "C.m", "()", "(I)", ":3", " -> ", "x", ":", "#"];

#[derive(Clone, Debug, Serialize)]
pub struct TokenChunk {
    pub len: usize,
    pub first: usize,
}

pub fn check_recognised(text: &str, st: &mut Stats) -> Check {
    st.evaluations += 1;
    let rec = recognise(text);
    let parsed = guarded(|| proguard::ProguardRecord::try_parse(text.as_bytes())).map_err(|p| Fail::new("parse-panic", format!("try_parse panicked on {text:?}: {p}")))?;
    match (&rec, &parsed) {
        (Some(r), Ok(p)) => {
            if !same_record(r, p) {
                return Err(Fail::new("wrong-record", format!("{text:?} parsed to {p:?}, the documented grammar says {r:?}")).with(json!({"line": text})));
            }
            st.nontrivial(fnv64(text.as_bytes()));
        }
        (Some(r), Err(e)) => {
            return Err(Fail::new("wellformed-rejected", format!("well-formed line {text:?} rejected ({:?}); the documented grammar says {r:?}", e.kind())).with(json!({"line": text})));
        }
        (None, Err(e)) => {
            if strip_term(e.line()) != strip_term(text.as_bytes()) {
                return Err(Fail::new("error-line", format!("error for {text:?} carries line {:?}", show_bytes(e.line()))));
            }
        }
        (None, Ok(_)) => {}
    }
    Ok(())
}

pub fn check_token_chunk(c: &TokenChunk, st: &mut Stats) -> Check {
    // all strings of exactly c.len tokens whose first token is c.first
    let n = TOKENS.len();
    let mut idx = vec![0usize; c.len];
    idx[0] = c.first;
    let mut text = String::new();
    loop {
        text.clear();
        for i in &idx {
            text.push_str(TOKENS[*i]);
        }
        check_recognised(&text, st)?;
        // increment positions 1..
        let mut p = c.len;
        loop {
            if p == 1 {
                return Ok(());
            }
            p -= 1;
            idx[p] += 1;
            if idx[p] < n {
                break;
            }
            idx[p] = 0;
        }
    }
}

// ---------------------------------------------------------------------------------------------
// (d) corpus lines

pub fn check_corpus_file(path: &String, st: &mut Stats) -> Check {
    let bytes = std::fs::read(path).map_err(|e| Fail::new("harness-io", format!("{path}: {e}")))?;
    let text = String::from_utf8_lossy(&bytes).to_string();
    let mut n = 0;
    for line in text.split('\n') {
        let line = line.strip_suffix('\r').unwrap_or(line);
        if line.is_empty() {
            continue;
        }
        n += 1;
        check_recognised(line, st)?;
        // with CRLF terminator as well
        if n % 16 == 0 {
            let t = format!("{line}\r\n");
            st.evaluations += 1;
            if let Some(r) = recognise(line) {
                match proguard::ProguardRecord::try_parse(t.as_bytes()) {
                    Ok(p) if same_record(&r, &p) => {}
                    other => return Err(Fail::new("wrong-record", format!("{t:?} parsed to {other:?}, the documented grammar says {r:?}"))),
                }
            }
        }
    }
    st.class_n("corpus lines", n);
    Ok(())
}

/// A well-formed line after a long run of malformed lines (and in a very long file) must still be reported, at its
/// position: the iterator must not give up or lose count (thresholds 255/256, 4096/4097, 65535/65536/65537).
#[derive(Clone, Debug, Serialize)]
pub struct RunCase {
    pub n: usize,
    pub eol: &'static str,
}

pub fn check_run(c: &RunCase, st: &mut Stats) -> Check {
    st.evaluations += 1;
    let mut file = String::with_capacity(c.n * 12 + 200);
    for i in 0..c.n {
        file.push_str(if i % 3 == 0 { "garbage" } else if i % 3 == 1 { "a->b:" } else { "    void missingArrow()" });
        file.push_str(c.eol);
    }
    file.push_str("com.example.Foo -> a:");
    file.push_str(c.eol);
    file.push_str("    1:2:void com.example.Bar.m(int):3:4 -> x");
    file.push_str(c.eol);
    file.push_str("also garbage");
    let items = file_items(file.as_bytes()).map_err(|p| Fail::new("parse-panic", p))?;
    let items: Vec<_> = items.into_iter().filter(|i| !matches!(i, Err(l) if strip_term(l).is_empty())).collect();
    st.nontrivial(c.n as u64 * 31 + c.eol.len() as u64);
    st.class("well-formed lines after a long run of malformed lines");
    let want_class = Want::Class { original: "com.example.Foo".into(), obfuscated: "a".into() };
    let want_method = Want::Method {
        ty: "void".into(),
        original: "m".into(),
        obfuscated: "x".into(),
        arguments: "int".into(),
        original_class: Some("com.example.Bar".into()),
        line_mapping: Some(LineMap { start: 1, end: 2, ostart: Some(3), oend: Some(4) }),
    };
    if items.len() != c.n + 3 {
        return Err(Fail::new("run-item-count", format!("{} malformed lines + 2 well-formed + 1 malformed line yield {} items instead of {}", c.n, items.len(), c.n + 3)));
    }
    match (&items[c.n], &items[c.n + 1]) {
        (Ok(a), Ok(b)) if want_matches(&want_class, a) && want_matches(&want_method, b) => Ok(()),
        (a, b) => Err(Fail::new("run-wrong-record", format!("after {} malformed lines the class and method lines were reported as {a:?} and {b:?}", c.n))),
    }
}

// ---------------------------------------------------------------------------------------------
// (e) very long lines: one name of 2^20 .. 48 MiB bytes, well-formed and with every single violation

#[derive(Clone, Debug, Serialize, Deserialize)]
pub struct HugeCase {
    /// byte length of the long name
    pub len: usize,
    /// 0 = class line (long original), 1 = class line (long obfuscated), 2 = method (long original name),
    /// 3 = method (long argument list), 4 = field (long type)
    pub shape: u8,
}

pub fn check_huge(c: &HugeCase, st: &mut Stats) -> Check {
    let long = "n".repeat(c.len);
    let line = match c.shape {
        0 => LineAst::Class { orig: format!("com.example.{long}"), obf: "a.b".into() },
        1 => LineAst::Class { orig: "com.example.Foo".into(), obf: long.clone() },
        2 => LineAst::Member(Item::Method(Method { range: Some((1, 2)), ty: "void".into(), oclass: None, oname: long.clone(), args: "int".into(), olines: OLines::SE(3, 4), obf: "a".into() })),
        3 => LineAst::Member(Item::Method(Method { range: None, ty: "void".into(), oclass: Some("x.Y".into()), oname: "m".into(), args: format!("int,{long}"), olines: OLines::None, obf: "a".into() })),
        _ => LineAst::Member(Item::Field { ty: long.clone(), orig: "f".into(), obf: "a".into() }),
    };
    let (text, want) = print_and_expect(&line);
    st.class(&format!("line of {} bytes", if c.len >= 1 << 24 { ">= 16 MiB" } else if c.len > 1 << 20 { "> 1 MiB" } else { "<= 1 MiB" }));
    st.nontrivial(fnv64(&[c.shape, (c.len % 251) as u8, (c.len >> 20) as u8]));
    for term in ["", "\n", "\r\n"] {
        st.evaluations += 1;
        check_exact(format!("{text}{term}").as_bytes(), &want, "very long line")?;
    }
    // inside a file: neighbours keep their identity, the long line appears once
    let file = format!("# compiler: R8\nx.Y -> z:\n{text}\r\n    void m() -> b\n");
    st.evaluations += 1;
    let items = file_items(file.as_bytes()).map_err(|p| Fail::new("parse-panic", p))?;
    match items.get(2) {
        Some(Ok(r)) if want_matches(&want, r) && items.len() == 4 && items[3].is_ok() => {}
        other => return Err(Fail::new("wrong-record-in-file", format!("very long line (shape {}, {} bytes) inside a file: item 2 of {} is {}", c.shape, c.len, items.len(), crate::engine::truncate(&format!("{other:?}"), 300)))),
    }
    for which in 0..VIOLATIONS.len() {
        if let Some((bad, kind)) = violate(&line, &text, which) {
            st.evaluations += 2;
            check_must_err(format!("{bad}\n").as_bytes(), kind)?;
            // the error item of the iterator carries the whole line, too
            let file = format!("x.Y -> z:\n{bad}\n    void m() -> b\n");
            let items = file_items(file.as_bytes()).map_err(|p| Fail::new("parse-panic", p))?;
            match items.get(1) {
                Some(Err(l)) if strip_term(l) == bad.as_bytes() && items.len() == 3 => {}
                Some(Err(l)) => return Err(Fail::new("error-line", format!("violation '{kind}' on a line of {} bytes: the error item carries {} bytes ({} items in the file)", bad.len(), strip_term(l).len(), items.len()))),
                Some(Ok(r)) => return Err(Fail::new("malformed-accepted", format!("violation '{kind}' on a line of {} bytes was accepted: {}", bad.len(), crate::engine::truncate(&format!("{r:?}"), 200)))),
                None => return Err(Fail::new("error-line", format!("violation '{kind}' on a line of {} bytes: the file yields {} items", bad.len(), items.len()))),
            }
        }
    }
    Ok(())
}

pub fn run(ctx: &Ctx) -> Report {
    let mut rep = Report::new(ID, "exploration", ctx);
    rep.rule = "(a) generated record ASTs (class/method/field/sourceFile/padded key-value headers; identifier alphabet incl. $ < > - [ ] digits, 2/3/4-byte UTF-8, long names; numbers 0..2^40; every combination of optional parts) printed canonically with terminators none/LF/CRLF/LFLF/CR, parsed alone (try_parse) and embedded between other lines (iter); expected record computed from the AST; plus one documented single violation per case (arrow missing/unspaced/half-spaced, class colon missing, indent 0/2/3/5/tab, start without end, return type missing) which must be an Err carrying the line. (b) bounded-exhaustive slot product indent x range x type x name x args x original-lines x arrow x obfuscated x terminator (+ class and header products): 0 bad slots => exact record, exactly 1 => Err, >=2 => totality only. (c) bounded-exhaustive: all strings of <=6 (quick) / <=7 (thorough) tokens over a 12-token alphabet against a strict hand-written recogniser of the documented grammar (recognised => exact record; every Err carries its line). (d) every line of the corpus files against the recogniser. (e) lines with one name of 2^20-20 .. 2^24+3 (thorough: 48 MiB) bytes in five shapes, well-formed (exact record, alone and inside a file) and with every applicable single violation (Err carrying the whole line, from try_parse and from the iterator). evaluations = parse calls. Non-trivial = distinct well-formed lines with >=1 optional part / recognised well-formed lines, plus distinct single-violation lines.".into();
    rep.assumptions = vec!["the recogniser is narrower than the parser: lines it does not classify are only checked for totality".into(), "error lines are compared up to their terminator".into()];
    let n = ctx.cases(200_000, 9_000_000);
    rep.run_stage("lines", line_case, n, check_line_case);
    let slots = slot_product();
    rep.run_enum("slots", &slots, check_slot);
    rep.stats.exhaustive.push(format!("slot product: {} lines", slots.len()));
    let max_len = ctx.tier.pick(6, 7);
    let mut chunks = Vec::new();
    for len in 1..=max_len {
        for first in 0..TOKENS.len() {
            chunks.push(TokenChunk { len, first });
        }
    }
    // longest chunks first for better load balancing
    chunks.reverse();
    rep.run_enum("tokens", &chunks, check_token_chunk);
    rep.stats.exhaustive.push(format!("all token strings of length <= {max_len} over the 12-token alphabet"));
    let mut runs = Vec::new();
    for n in ctx.tier.pick(&[255usize, 256, 4096, 4097, 65537][..], &[255usize, 256, 257, 4095, 4096, 4097, 65535, 65536, 65537, 200_000][..]) {
        for eol in ["\n", "\r\n", "\r"] {
            runs.push(RunCase { n: *n, eol });
        }
    }
    rep.run_enum("runs", &runs, check_run);
    let files = super::c02::corpus_files();
    rep.run_enum("corpus", &files, check_corpus_file);
    let mut huge = Vec::new();
    for len in ctx.tier.pick(&[(1usize << 20) - 20, (1 << 20) + 1, (1 << 21) + 5, (1 << 24) + 3][..], &[(1usize << 20) - 20, 1 << 20, (1 << 20) + 1, (1 << 21) + 5, (1 << 24) + 3, (1 << 25) + 9, 48 << 20][..]) {
        for shape in 0..5u8 {
            huge.push(HugeCase { len: *len, shape });
        }
    }
    rep.run_enum("huge", &huge, check_huge);
    rep
}

pub fn replay(stage: &str, case: &Value) -> Check {
    let mut st = Stats::new();
    match stage {
        "lines" => check_line_case(&serde_json::from_value(case.clone()).map_err(|e| Fail::new("harness-replay", e.to_string()))?, &mut st),
        "slots" => {
            let text = case["text"].as_str().unwrap_or("");
            match slot_product().into_iter().find(|s| s.text == text) {
                Some(s) => check_slot(&s, &mut st),
                None => Err(Fail::new("harness-replay", "slot line not found")),
            }
        }
        "tokens" => check_token_chunk(&TokenChunk { len: case["len"].as_u64().unwrap_or(1) as usize, first: case["first"].as_u64().unwrap_or(0) as usize }, &mut st),
        "runs" => check_run(&RunCase { n: case["n"].as_u64().unwrap_or(0) as usize, eol: match case["eol"].as_str() { Some("\r\n") => "\r\n", Some("\r") => "\r", _ => "\n" } }, &mut st),
        "corpus" => check_corpus_file(&case.as_str().unwrap_or("").to_string(), &mut st),
        "huge" => check_huge(&serde_json::from_value(case.clone()).map_err(|e| Fail::new("harness-replay", e.to_string()))?, &mut st),
        _ => Err(Fail::new("harness-replay", format!("unknown stage {stage}"))),
    }
}

//! C04 — class lookup is exact and method lookup never guesses when ambiguous.

use super::common::*;
use crate::api::Retracer;
use crate::engine::{Check, Ctx, Fail, Report, Stats};
use crate::gen::mapping::{wide_file, GenCfg};
use crate::gen::universe::Universe;
use crate::model::retrace::Model;
use crate::transcript::{check_class_model, check_methods_model, qhash};
use proptest::prelude::*;
use serde_json::{json, Value};

pub const ID: &str = "C04";

pub fn cfg() -> GenCfg {
    GenCfg { plain_sourcefile_headers: false, overloads: true, max_blocks: 10, ..GenCfg::default() }
}

fn classify(model: &Model, st: &mut Stats) {
    let mut ambiguous = false;
    for c in model.classes.values() {
        let mut names: std::collections::HashMap<&str, &str> = Default::default();
        for e in &c.entries {
            if let Some(prev) = names.insert(e.m.obf.as_str(), e.m.oname.as_str()) {
                if prev != e.m.oname {
                    ambiguous = true;
                }
            }
        }
    }
    if ambiguous {
        st.class("case with an ambiguous method");
    }
    if model.shadowed > 0 {
        st.class("case with duplicate class names");
    }
    if model.classes.len() >= 100 {
        st.class("case with >=100 classes");
    }
    let names: Vec<&&str> = model.classes.keys().collect();
    if names.windows(2).any(|w| !w[0].is_ascii() && !w[1].is_ascii()) {
        st.class("case with non-ASCII class names adjacent in sort order");
    }
}

pub fn check_case(case: &MapCase, st: &mut Stats) -> Check {
    let model = Model::new(&case.file);
    classify(&model, st);
    let u = Universe::from_ast(&case.file, true);
    let case_hash = case.hash();
    if st.want_sample() && case.file.blocks.len() >= 3 {
        st.sample(|| case.sample());
    }
    let bytes = case.bytes();
    let variants = mapper_variants(&bytes)?;
    let buf = write_cache(&bytes)?;
    let cache = parse_cache(&buf)?;
    let mut impls: Vec<&dyn Retracer> = variants.iter().map(|(m, _)| m as &dyn Retracer).collect();
    impls.push(&cache);
    for (ii, r) in impls.into_iter().enumerate() {
        no_panic("query", || {
            let mut scratch = Stats::new();
            let target: &mut Stats = if ii == 0 { st } else { &mut scratch };
            check_class_model(r, &model, &u, case_hash, target)?;
            check_methods_model(r, &model, &u, case_hash, target)?;
            // throwable lookup = class lookup with the message carried over
            for (c, _) in u.all_classes() {
                target.evaluations += 1;
                let got = r.throwable(c, Some("msg: x"));
                let want = model.class(c).map(|o| (o, Some("msg: x")));
                if got != want {
                    return Err(Fail::new("model-throwable", format!("{}: remap_throwable({c:?}) = {got:?}, model says {want:?}", r.name()))
                        .with(json!({"impl": r.name(), "query": {"kind": "throwable", "class": c}})));
                }
            }
            // cross-API invariant: whenever remap_method answers, every by-line frame carries that method name
            for c in &u.known_classes {
                for m in &u.known_methods {
                    if let Some((_, name)) = r.method(c, m) {
                        for &l in &u.lines {
                            target.evaluations += 1;
                            let frames = r.frame_line(c, m, l, None);
                            if !frames.is_empty() {
                                target.nontrivial(qhash(case_hash, b'i', &[c.as_bytes(), m.as_bytes(), &l.to_le_bytes()]));
                            }
                            if let Some(f) = frames.iter().find(|f| f.method != name) {
                                return Err(Fail::new(
                                    "method-frame-invariant",
                                    format!("{}: remap_method({c:?},{m:?}) answered {name:?} but remap_frame line {l} produced method {:?}", r.name(), f.method),
                                )
                                .with(json!({"impl": r.name(), "query": {"kind": "invariant", "class": c, "method": m, "line": l}})));
                            }
                        }
                    }
                }
            }
            if ii != 0 {
                st.evaluations += scratch.evaluations;
            }
            Ok(())
        })?;
    }
    Ok(())
}

pub fn check_corpus(c: &CorpusAstCase, st: &mut Stats) -> Check {
    let Some((bytes, ast)) = load_corpus_ast(c)? else {
        st.class("corpus file not fully classified by the strict recogniser (skipped)");
        return Ok(());
    };
    st.class("corpus file checked against the reference model");
    let model = Model::new(&ast);
    classify(&model, st);
    let mut u = sampled_universe(&ast, c.max_classes, c.pick);
    // class lookups: every class of the file, not only the sample
    u.other_classes.extend(ast.blocks.iter().map(|b| format!("{}x", b.obf)));
    let all: Vec<String> = ast.blocks.iter().map(|b| b.obf.clone()).collect();
    let case_hash = crate::engine::fnv64(&bytes) ^ c.pick;
    st.sample(|| json!({"corpus file": c.path, "crlf": c.crlf, "classes": ast.blocks.len(), "classes sampled for method lookups": u.known_classes.len()}));
    let m_plain = mapper(&bytes, false)?;
    let buf = write_cache(&bytes)?;
    let cache = parse_cache(&buf)?;
    let impls: [&dyn Retracer; 2] = [&m_plain, &cache];
    for (ii, r) in impls.into_iter().enumerate() {
        no_panic("query", || {
            let mut scratch = Stats::new();
            let target: &mut Stats = if ii == 0 { st } else { &mut scratch };
            for c in &all {
                target.evaluations += 1;
                let got = r.class(c);
                if got != model.class(c) {
                    return Err(Fail::new("model-class", format!("{}: remap_class({c:?}) = {got:?}, model says {:?}", r.name(), model.class(c))));
                }
            }
            check_class_model(r, &model, &u, case_hash, target)?;
            check_methods_model(r, &model, &u, case_hash, target)?;
            if ii != 0 {
                st.evaluations += scratch.evaluations;
            }
            Ok(())
        })?;
    }
    Ok(())
}

pub fn wide_case(max: usize) -> BoxedStrategy<MapCase> {
    (wide_file(max, &cfg()), crate::gen::mapping::render_cfg(), any::<u64>())
        .prop_map(|(file, render, key)| MapCase { file, render, key })
        .boxed()
}

pub fn run(ctx: &Ctx) -> Report {
    let mut rep = Report::new(ID, "exploration", ctx);
    rep.rule = "Cases: grammar-generated mappings (1..10 blocks) plus a 'wide' profile (up to 400 classes whose obfuscated names are built from a tiny alphabet: prefixes, '$'/'.' variants, case variants, non-ASCII, duplicates). Oracle: reference model (last class line wins; method answers iff class known, >=1 entry, all entries agree) for mapper and cache on every name in the file, every near-miss (edit distance 1, '$'<->'.', case flip) and sort-order neighbour, plus remap_throwable; invariant: whenever remap_method answers, every by-line frame for that (class, method) carries that method name. Non-trivial = distinct (case, lookup) of names present in the file / lookups where the method exists in the class.".into();
    rep.assumptions = vec!["cache buffers are 8-byte aligned".into()];
    let n = ctx.cases(10_000, 450_000);
    rep.run_stage("ast", || map_case(&cfg()), n, check_case);
    let nw = ctx.cases(100, 4_500);
    let max = ctx.tier.pick(150, 400);
    rep.run_stage("wide", move || wide_case(max), nw, check_case);
    let corpus = corpus_ast_cases(40, 150, 4, ctx);
    rep.run_enum("corpus", &corpus, check_corpus);
    super::scale::run(&mut rep, ctx, "C04");
    rep
}

pub fn replay(stage: &str, case: &Value) -> Check {
    let mut st = Stats::new();
    if stage == "scale" {
        return super::scale::replay(case);
    }
    match stage {
        "ast" | "wide" => check_case(&serde_json::from_value(case.clone()).map_err(|e| Fail::new("harness-replay", e.to_string()))?, &mut st),
        "corpus" => check_corpus(&serde_json::from_value(case.clone()).map_err(|e| Fail::new("harness-replay", e.to_string()))?, &mut st),
        _ => Err(Fail::new("harness-replay", format!("unknown stage {stage}"))),
    }
}

//! C09 — written cache files conform to the documented layout and ordering invariants.

use super::common::*;
use crate::engine::{guarded, Check, Ctx, Fail, Report, Stats};
use crate::gen::mapping::{GenCfg, OLines};
use crate::model::layout::{self, Layout, MemberRec, ABSENT};
use crate::model::retrace::{Entry, Model};
use serde_json::{json, Value};
use std::collections::BTreeMap;

pub const ID: &str = "C09";

pub fn cfg() -> GenCfg {
    GenCfg { plain_sourcefile_headers: false, overloads: true, long: 3, ..GenCfg::default() }
}

#[derive(Debug, PartialEq, Eq, Clone)]
pub struct MemberView<'a> {
    pub obf: &'a str,
    pub start: u32,
    pub end: u32,
    pub oclass: Option<&'a str>,
    pub ofile: Option<&'a str>,
    pub oname: &'a str,
    pub ostart: u32,
    pub oend: u32,
    pub params: &'a str,
}

fn resolve<'a>(tab: &BTreeMap<u32, &'a str>, off: u32, optional: bool, what: &str) -> Result<Option<&'a str>, String> {
    if off == ABSENT {
        if optional {
            return Ok(None);
        }
        return Err(format!("{what}: mandatory string field holds the 'absent' sentinel"));
    }
    tab.get(&off).copied().map(Some).ok_or(format!("{what}: offset {off} is not the start of a string in the string section"))
}

fn member_view<'a>(tab: &BTreeMap<u32, &'a str>, m: &MemberRec, what: &str) -> Result<MemberView<'a>, String> {
    Ok(MemberView {
        obf: resolve(tab, m.obfuscated_name, false, &format!("{what}.obfuscated_name"))?.unwrap(),
        start: m.startline,
        end: m.endline,
        oclass: resolve(tab, m.original_class, true, &format!("{what}.original_class"))?,
        ofile: resolve(tab, m.original_file, true, &format!("{what}.original_file"))?,
        oname: resolve(tab, m.original_name, false, &format!("{what}.original_name"))?.unwrap(),
        ostart: m.original_startline,
        oend: m.original_endline,
        // the params string is always present in the format; an empty parameter list is stored as 'absent'
        params: resolve(tab, m.params, true, &format!("{what}.params"))?.unwrap_or(""),
    })
}

fn expected_member<'a>(e: &Entry<'a>) -> MemberView<'a> {
    let (start, end, ostart, oend) = match e.m.usable() {
        None => (0, 0, 0, ABSENT),
        Some((s, en)) => {
            let (os, oe) = match e.m.olines {
                OLines::None => (s, en),
                OLines::S(a) => (a, ABSENT as u64),
                OLines::SE(a, b) => (a, b),
            };
            (s as u32, en as u32, os as u32, oe as u32)
        }
    };
    MemberView {
        obf: &e.m.obf,
        start,
        end,
        oclass: e.m.oclass.as_deref(),
        ofile: e.file,
        oname: &e.m.oname,
        ostart,
        oend,
        params: &e.m.args,
    }
}

/// The structural invariants of the documented layout (independent of any AST).
pub fn check_layout(l: &Layout) -> Result<(), (String, String)> {
    let tab = layout::string_table(l.strings).map_err(|e| ("layout-strings".to_string(), e))?;
    let mut prev_name: Option<&str> = None;
    let mut m_next = 0u64;
    let mut bp_next = 0u64;
    for (i, c) in l.classes.iter().enumerate() {
        let what = format!("class[{i}]");
        let obf = resolve(&tab, c.obfuscated_name, false, &format!("{what}.obfuscated_name")).map_err(|e| ("layout-offset".to_string(), e))?.unwrap();
        resolve(&tab, c.original_name, false, &format!("{what}.original_name")).map_err(|e| ("layout-offset".to_string(), e))?;
        resolve(&tab, c.file_name, true, &format!("{what}.file_name")).map_err(|e| ("layout-offset".to_string(), e))?;
        if let Some(p) = prev_name {
            if p.as_bytes() >= obf.as_bytes() {
                return Err(("layout-class-order".into(), format!("classes not strictly sorted by obfuscated name: {p:?} before {obf:?}")));
            }
        }
        prev_name = Some(obf);
        if c.members_offset as u64 != m_next {
            return Err(("layout-member-tiling".into(), format!("{what}: members_offset {} but previous classes end at {m_next}", c.members_offset)));
        }
        m_next += c.members_len as u64;
        if c.members_by_params_offset as u64 != bp_next {
            return Err(("layout-by-params-tiling".into(), format!("{what}: members_by_params_offset {} but previous classes end at {bp_next}", c.members_by_params_offset)));
        }
        bp_next += c.members_by_params_len as u64;
        if m_next > l.members.len() as u64 || bp_next > l.by_params.len() as u64 {
            return Err(("layout-member-tiling".into(), format!("{what}: member ranges run past their sections")));
        }
        // ordering inside the class
        let ms = &l.members[c.members_offset as usize..m_next as usize];
        let mut prev: Option<&str> = None;
        for (j, m) in ms.iter().enumerate() {
            let v = member_view(&tab, m, &format!("{what}.member[{j}]")).map_err(|e| ("layout-offset".to_string(), e))?;
            if let Some(p) = prev {
                if p.as_bytes() > v.obf.as_bytes() {
                    return Err(("layout-member-order".into(), format!("{what}: members not sorted by obfuscated name: {p:?} before {:?}", v.obf)));
                }
            }
            prev = Some(v.obf);
        }
        let bs = &l.by_params[c.members_by_params_offset as usize..bp_next as usize];
        let mut prev: Option<(&str, &str)> = None;
        for (j, m) in bs.iter().enumerate() {
            let v = member_view(&tab, m, &format!("{what}.by_params[{j}]")).map_err(|e| ("layout-offset".to_string(), e))?;
            if let Some(p) = prev {
                if p > (v.obf, v.params) {
                    return Err(("layout-by-params-order".into(), format!("{what}: by-params entries not sorted by (name, params): {p:?} before {:?}", (v.obf, v.params))));
                }
            }
            prev = Some((v.obf, v.params));
        }
    }
    if m_next != l.members.len() as u64 {
        return Err(("layout-member-tiling".into(), format!("class member ranges cover {m_next} of {} member entries", l.members.len())));
    }
    if bp_next != l.by_params.len() as u64 {
        return Err(("layout-by-params-tiling".into(), format!("class by-params ranges cover {bp_next} of {} entries", l.by_params.len())));
    }
    Ok(())
}

/// Decoded records, strings resolved, must equal what the reference model derives from the AST.
pub fn check_against_model(l: &Layout, model: &Model) -> Result<(), (String, String)> {
    let tab = layout::string_table(l.strings).map_err(|e| ("layout-strings".to_string(), e))?;
    if l.classes.len() != model.classes.len() {
        return Err(("layout-count".into(), format!("header/classes section has {} classes, the mapping defines {}", l.classes.len(), model.classes.len())));
    }
    for (i, (c, (name, cm))) in l.classes.iter().zip(model.classes.iter()).enumerate() {
        let what = format!("class[{i}]");
        let e = |s: String| ("layout-records".to_string(), s);
        let obf = resolve(&tab, c.obfuscated_name, false, &what).map_err(e)?.unwrap();
        let orig = resolve(&tab, c.original_name, false, &what).map_err(e)?.unwrap();
        let file = resolve(&tab, c.file_name, true, &what).map_err(e)?;
        if obf != *name || orig != cm.orig || file != cm.file {
            return Err(("layout-records".into(), format!("{what}: decoded ({obf:?},{orig:?},{file:?}) but the mapping says ({name:?},{:?},{:?})", cm.orig, cm.file)));
        }
        // expected members: grouped by obfuscated name (byte order), file order inside a group
        let mut groups: BTreeMap<&str, Vec<MemberView>> = BTreeMap::new();
        let mut bp_groups: BTreeMap<(&str, &str), Vec<MemberView>> = BTreeMap::new();
        for en in &cm.entries {
            let v = expected_member(en);
            if en.by_params {
                bp_groups.entry((v.obf, v.params)).or_default().push(v.clone());
            }
            groups.entry(v.obf).or_default().push(v);
        }
        let want: Vec<MemberView> = groups.into_values().flatten().collect();
        let want_bp: Vec<MemberView> = bp_groups.into_values().flatten().collect();
        let ms = l.members.get(c.members_offset as usize..(c.members_offset as usize + c.members_len as usize)).ok_or(("layout-member-tiling".to_string(), format!("{what}: member range out of bounds")))?;
        let bs = l
            .by_params
            .get(c.members_by_params_offset as usize..(c.members_by_params_offset as usize + c.members_by_params_len as usize))
            .ok_or(("layout-by-params-tiling".to_string(), format!("{what}: by-params range out of bounds")))?;
        let got: Vec<MemberView> = ms.iter().enumerate().map(|(j, m)| member_view(&tab, m, &format!("{what}.member[{j}]"))).collect::<Result<_, _>>().map_err(e)?;
        let got_bp: Vec<MemberView> = bs.iter().enumerate().map(|(j, m)| member_view(&tab, m, &format!("{what}.by_params[{j}]"))).collect::<Result<_, _>>().map_err(e)?;
        if got != want {
            return Err(("layout-records".into(), format!("{what} ({obf:?}): decoded members {got:?} but the mapping says {want:?}")));
        }
        if got_bp != want_bp {
            return Err(("layout-records-by-params".into(), format!("{what} ({obf:?}): decoded by-params entries {got_bp:?} but the mapping says {want_bp:?}")));
        }
    }
    Ok(())
}

pub fn check_bytes_layout(cache: &[u8], st: &mut Stats) -> Result<(), Fail> {
    let l = layout::decode(cache).map_err(|e| Fail::new("layout-decode", e))?;
    if l.header.num_classes % 2 == 1 || l.header.num_members % 2 == 1 || l.header.num_members_by_params % 2 == 1 {
        st.class("file with padding present (odd class/member/by-params count)");
    }
    if l.strings.len() > 0 && layout::string_table(l.strings).map_or(false, |t| t.values().any(|s| s.len() > 127)) {
        st.class("file with a multi-byte LEB128 length prefix (string > 127 bytes)");
    }
    check_layout(&l).map_err(|(sig, msg)| Fail::new(&sig, msg))
}

pub fn check_case(case: &MapCase, st: &mut Stats) -> Check {
    let model = Model::new(&case.file);
    let bytes = case.bytes();
    let buf = write_cache(&bytes)?;
    st.evaluations += 1;
    let mut bp_classes = 0;
    let mut later_bp = false;
    let mut mismatch = false;
    for (i, c) in model.classes.values().enumerate() {
        let bp = c.entries.iter().filter(|e| e.by_params).count();
        if bp > 0 {
            bp_classes += 1;
            if i > 0 {
                later_bp = true;
            }
        }
        if bp != c.entries.len() {
            mismatch = true;
        }
    }
    if model.classes.len() >= 2 && later_bp {
        st.nontrivial(case.hash());
    }
    if mismatch {
        st.class("file with by-params count != member count");
    }
    if bp_classes >= 2 {
        st.class("file with >=2 classes having by-params entries");
    }
    if model.classes.values().any(|c| c.entries.is_empty()) {
        st.class("file with a class without members");
    }
    if model.classes.values().any(|c| c.entries.iter().any(|e| e.m.oclass.is_none() || e.file.is_none() || e.m.args.is_empty())) {
        st.class("file with absent-sentinel fields");
    }
    if st.want_sample() && case.file.n_methods() >= 3 {
        st.sample(|| json!({"mapping": crate::engine::show_bytes(&bytes), "cache_len": buf.len(), "cache_hex_prefix": crate::engine::hex(&buf.bytes()[..buf.len().min(96)])}));
    }
    check_bytes_layout(buf.bytes(), st)?;
    let l = layout::decode(buf.bytes()).map_err(|e| Fail::new("layout-decode", e))?;
    check_against_model(&l, &model).map_err(|(sig, msg)| Fail::new(&sig, msg))?;
    // the library's own integrity self-test accepts the file
    let cache = parse_cache(&buf)?;
    guarded(|| cache.0.test()).map_err(|p| Fail::new("self-test", format!("ProguardCache::test() rejected a freshly written file: {p}")))?;
    Ok(())
}

pub fn check_corpus(case: &super::c02::CorpusCase, st: &mut Stats) -> Check {
    let mut bytes = std::fs::read(&case.path).map_err(|e| Fail::new("harness-io", format!("{}: {e}", case.path)))?;
    if case.crlf {
        bytes = crate::gen::mutate::to_crlf(&bytes);
    }
    if !crate::gen::mutate::representable(&bytes) {
        st.class("corpus file outside the representable domain (skipped)");
        return Ok(());
    }
    st.evaluations += 1;
    let buf = write_cache(&bytes)?;
    st.nontrivial(crate::engine::fnv64(&bytes));
    st.class("corpus file");
    check_bytes_layout(buf.bytes(), st)?;
    let cache = parse_cache(&buf)?;
    guarded(|| cache.0.test()).map_err(|p| Fail::new("self-test", format!("ProguardCache::test() rejected a freshly written file: {p}")))?;
    // real-world file converted by the independent strict recogniser: decoded records must equal the model's
    let ac = CorpusAstCase { path: case.path.clone(), crlf: case.crlf, pick: 0, max_classes: 0 };
    if let Some((_, ast)) = load_corpus_ast(&ac)? {
        st.class("corpus file: decoded records compared with the model derived by the strict recogniser");
        let model = Model::new(&ast);
        let l = layout::decode(buf.bytes()).map_err(|e| Fail::new("layout-decode", e))?;
        check_against_model(&l, &model).map_err(|(sig, msg)| Fail::new(&sig, msg))?;
    }
    Ok(())
}

/// single strings at the 3-/4-byte LEB128 prefix boundary (2^21 bytes)
#[derive(Clone, Debug, serde::Serialize, serde::Deserialize)]
pub struct HugeString {
    pub len: usize,
    pub which: u8,
}

pub fn check_huge_string(h: &HugeString, st: &mut Stats) -> Check {
    let long = "n".repeat(h.len);
    let text = match h.which % 3 {
        0 => format!("com.example.{long} -> a:\n    1:2:void m(int):3:4 -> x\ncom.example.After -> b:\n    void y() -> z\n"),
        1 => format!("com.example.Foo -> a:\n    1:2:void m({long}):3:4 -> x\n    void after() -> y\ncom.example.After -> b:\n"),
        _ => format!("com.example.Foo -> {long}:\n    void m() -> x\ncom.example.After -> b:\n    void y() -> z\n"),
    };
    st.evaluations += 1;
    st.class("file with a single string at the 2^21 / 2^28-byte length-prefix boundaries");
    st.nontrivial(h.len as u64 * 3 + h.which as u64);
    let ast = crate::model::lineparse::to_ast(text.as_bytes()).ok_or_else(|| Fail::new("harness", "huge-string mapping not recognised"))?;
    let model = Model::new(&ast);
    let buf = write_cache(text.as_bytes())?;
    check_bytes_layout(buf.bytes(), st)?;
    let l = layout::decode(buf.bytes()).map_err(|e| Fail::new("layout-decode", e))?;
    check_against_model(&l, &model).map_err(|(sig, msg)| Fail::new(&sig, crate::engine::truncate(&msg, 600)))?;
    let cache = parse_cache(&buf)?;
    guarded(|| cache.0.test()).map_err(|p| Fail::new("self-test", format!("ProguardCache::test() rejected a freshly written file: {}", crate::engine::truncate(&p, 300))))?;
    Ok(())
}

pub fn run(ctx: &Ctx) -> Report {
    let mut rep = Report::new(ID, "exploration", ctx);
    rep.rule = "Cases: grammar-generated mapping ASTs (representable domain; classes without members, members without by-params entries, shared strings, non-ASCII and >127-byte / >16383-byte strings), a wide profile (up to 400 similar class names) and the corpus files. Oracle: independent layout decoder (header magic/version/counts, exact file length, zero padding, strictly sorted classes, member and by-params ranges tiling their sections in class order, sortedness inside classes, every offset the start of a sequentially decoded length-prefixed UTF-8 string or the absent sentinel where allowed) plus equality of the decoded records with the records the reference model derives from the AST, plus ProguardCache::test(). evaluations = files written and decoded. Non-trivial = distinct files with >=2 classes and >=1 by-params entry in a class other than the first.".into();
    rep.assumptions = vec!["format documentation in src/cache/mod.rs:1-34 and field lists of raw.rs (version 1)".into()];
    let n = ctx.cases(50_000, 1_800_000);
    rep.run_stage("ast", || map_case(&cfg()), n, check_case);
    rep.run_stage("tall", || tall_case(&cfg()), ctx.cases(200, 9_000), check_case);
    let nw = ctx.cases(100, 4_500);
    let max = ctx.tier.pick(150, 400);
    rep.run_stage("wide", move || super::c04::wide_case(max), nw, check_case);
    let corpus: Vec<super::c02::CorpusCase> = super::c02::corpus_files()
        .into_iter()
        .flat_map(|p| [false, true].map(|crlf| super::c02::CorpusCase { path: p.clone(), crlf, pick: 0, max_classes: 0 }))
        .collect();
    rep.run_enum("corpus", &corpus, check_corpus);
    let mut huge = Vec::new();
    for len in [(1usize << 21) - 1, 1 << 21, (1 << 21) + 1] {
        for which in 0..3u8 {
            huge.push(HugeString { len, which });
        }
    }
    // 5-byte LEB128 prefix (2^28 bytes and more); 1.3 GiB of memory per case
    huge.push(HugeString { len: (1 << 28) - 1, which: 0 });
    huge.push(HugeString { len: 1 << 28, which: 1 });
    if ctx.tier == crate::engine::Tier::Thorough {
        huge.push(HugeString { len: (1 << 28) + 1, which: 2 });
        huge.push(HugeString { len: 1 << 29, which: 0 });
    }
    rep.run_enum("huge-strings", &huge, check_huge_string);
    super::scale::run(&mut rep, ctx, "C09");
    rep
}

pub fn replay(stage: &str, case: &Value) -> Check {
    let mut st = Stats::new();
    if stage == "scale" {
        return super::scale::replay(case);
    }
    match stage {
        "ast" | "wide" | "tall" => check_case(&serde_json::from_value(case.clone()).map_err(|e| Fail::new("harness-replay", e.to_string()))?, &mut st),
        "huge-strings" => check_huge_string(&serde_json::from_value(case.clone()).map_err(|e| Fail::new("harness-replay", e.to_string()))?, &mut st),
        "corpus" => check_corpus(&serde_json::from_value(case.clone()).map_err(|e| Fail::new("harness-replay", e.to_string()))?, &mut st),
        _ => Err(Fail::new("harness-replay", format!("unknown stage {stage}"))),
    }
}

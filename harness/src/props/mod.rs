pub mod c02;
pub mod common;

use crate::engine::{Check, Ctx, Report};
use serde_json::Value;

pub fn run(id: &str, ctx: &Ctx) -> Option<Report> {
    Some(match id {
        "C02" => c02::run(ctx),
        _ => return None,
    })
}

pub fn replay(id: &str, stage: &str, case: &Value) -> Option<Check> {
    Some(match id {
        "C02" => c02::replay(stage, case),
        _ => return None,
    })
}

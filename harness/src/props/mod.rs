pub mod c01;
pub mod c02;
pub mod c03;
pub mod c04;
pub mod c05;
pub mod c06;
pub mod c07;
pub mod c08;
pub mod c09;
pub mod c10;
pub mod c11;
pub mod c12;
pub mod c13;
pub mod c14;
pub mod c15;
pub mod c16;
pub mod c17;
pub mod c18;
pub mod c19;
pub mod common;
pub mod scale;

use crate::engine::{Check, Ctx, Report};
use serde_json::Value;

pub fn run(id: &str, ctx: &Ctx) -> Option<Report> {
    Some(match id {
        "C01" => c01::run(ctx),
        "C02" => c02::run(ctx),
        "C03" => c03::run(ctx),
        "C04" => c04::run(ctx),
        "C05" => c05::run(ctx),
        "C06" => c06::run(ctx),
        "C07" => c07::run(ctx),
        "C08" => c08::run(ctx),
        "C09" => c09::run(ctx),
        "C10" => c10::run(ctx),
        "C11" => c11::run(ctx),
        "C12" => c12::run(ctx),
        "C13" => c13::run(ctx),
        "C14" => c14::run(ctx),
        "C15" => c15::run(ctx),
        "C16" => c16::run(ctx),
        "C17" => c17::run(ctx),
        "C18" => c18::run(ctx),
        "C19" => c19::run(ctx),
        _ => return None,
    })
}

pub fn replay(id: &str, stage: &str, case: &Value) -> Option<Check> {
    Some(match id {
        "C01" => c01::replay(stage, case),
        "C02" => c02::replay(stage, case),
        "C03" => c03::replay(stage, case),
        "C04" => c04::replay(stage, case),
        "C05" => c05::replay(stage, case),
        "C06" => c06::replay(stage, case),
        "C07" => c07::replay(stage, case),
        "C08" => c08::replay(stage, case),
        "C09" => c09::replay(stage, case),
        "C10" => c10::replay(stage, case),
        "C11" => c11::replay(stage, case),
        "C12" => c12::replay(stage, case),
        "C13" => c13::replay(stage, case),
        "C14" => c14::replay(stage, case),
        "C15" => c15::replay(stage, case),
        "C16" => c16::replay(stage, case),
        "C17" => c17::replay(stage, case),
        "C18" => c18::replay(stage, case),
        "C19" => c19::replay(stage, case),
        _ => return None,
    })
}

//! C17 — printing a stack trace and parsing it back is lossless.

use crate::api::proguard as cur;
use crate::api::{FrameAst, ThrowableAst, TraceAst};
use crate::engine::{fnv64, guarded, Check, Ctx, Fail, Report, Stats};
use crate::gen::trace::{self, NamePool};
use proptest::prelude::*;
use proptest::sample::select;
use serde::{Deserialize, Serialize};
use serde_json::{json, Value};

pub const ID: &str = "C17";

pub fn pool() -> NamePool {
    NamePool {
        classes: ["a.b.C", "a$b", "é.ü.Ünï", "com.example.Foo$Bar", "at", "Caused", "by", "漢.字", "a.b.C$$Lambda$1", "x", "\u{feff}x.Y", "\u{200b}z", "z\u{feff}", "\u{ad}.q", "com.example.Weird:", "a:b", ":x", "x:", "a::", "(b", "b)", "java.base/java.lang.Thread", "app//com.example.Main", "a.b$$Lambda$14/0x0000000800066840", "my.module@1.0/a.b.C", "/x", "x/"].iter().map(|s| s.to_string()).collect(),
        methods: ["m", "<init>", "<clinit>", "lambda$x$0", "é", "access$000", "at", "m:", ":", "a)b"].iter().map(|s| s.to_string()).collect(),
        lines: vec![],
        hits: vec![],
    }
}

pub fn frame_in_domain(f: &FrameAst) -> bool {
    trace::frame_class_ok(&f.class) && trace::method_ok(&f.method) && f.file.as_ref().map_or(false, |x| !x.contains(':') && !x.contains(['\n', '\r']) && x.trim_end() == x || x.is_empty())
}

/// Does the trace lie in the statement's domain? (class without spaces, non-empty trimmed single-line message,
/// method without dots, file present and without colon)
pub fn in_domain(t: &TraceAst) -> bool {
    let thr_ok = |e: &ThrowableAst| {
        trace::class_ok(&e.class)
            && e.message.as_ref().map_or(true, |m| !m.is_empty() && m.trim() == m && !m.contains(['\n', '\r']))
    };
    let fr_ok = |f: &FrameAst| {
        trace::frame_class_ok(&f.class) && trace::method_ok(&f.method) && f.file.as_ref().map_or(false, |x| !x.contains(':') && !x.contains(['\n', '\r']) && x.trim_end() == x || x.is_empty())
    };
    t.exception.as_ref().map_or(true, thr_ok) && t.frames.iter().all(fr_ok) && t.cause.as_ref().map_or(true, |c| c.exception.is_some() && in_domain(c))
}

pub fn check_trace(t: &TraceAst, st: &mut Stats) -> Check {
    if !in_domain(t) || (t.exception.is_none() && t.frames.is_empty()) {
        st.class("generated trace outside the domain (skipped)");
        return Ok(());
    }
    st.evaluations += 1;
    let text = t.print();
    // our printer must agree with the library's printer (C17 is about the library's print)
    let lib_text = guarded(|| cur::to_trace(t).to_string()).map_err(|p| Fail::new("print-panic", p))?;
    if lib_text != text {
        return Err(Fail::new("print-format", format!("Display of the trace is {lib_text:?}, the documented format gives {text:?}")));
    }
    let has_delim = |t: &TraceAst| {
        let mut cur = Some(t);
        while let Some(x) = cur {
            if x.exception.as_ref().and_then(|e| e.message.as_ref()).map_or(false, |m| m.contains(": ") || m.contains("at ") || m.contains(')') || m.contains("Caused by")) {
                return true;
            }
            cur = x.cause.as_deref();
        }
        false
    };
    if !t.frames.is_empty() && (t.cause.is_some() || has_delim(t)) {
        st.nontrivial(fnv64(text.as_bytes()));
    }
    if t.exception.is_none() {
        st.class("top-level throwable absent");
    }
    if t.depth() >= 4 {
        st.class("cause chain depth >= 3");
    }
    if t.frames.iter().any(|f| f.line >= 1 << 32) {
        st.class("line >= 2^32");
    }
    if !text.is_ascii() {
        st.class("non-ASCII");
    }
    if st.want_sample() && t.frames.len() >= 2 && t.cause.is_some() {
        st.sample(|| json!({"printed trace": text}));
    }
    let parsed = guarded(|| proguard::StackTrace::try_parse(text.as_bytes()).map(|p| (cur::from_trace(&p), p.to_string()))).map_err(|p| Fail::new("parse-panic", p))?;
    match parsed {
        None => Err(Fail::new("roundtrip-none", format!("printed trace does not parse back: {text:?}")).with(json!({"text": text}))),
        Some((back, reprinted)) => {
            if &back != t {
                return Err(Fail::new("roundtrip-differs", format!("parse(print(T)) != T for {text:?}: got {back:?}, expected {t:?}")).with(json!({"text": text})));
            }
            if reprinted != text {
                return Err(Fail::new("reprint-differs", format!("print(parse(print(T))) = {reprinted:?} != {text:?}")));
            }
            Ok(())
        }
    }
}

pub fn check_frame(f: &FrameAst, st: &mut Stats) -> Check {
    st.evaluations += 1;
    let text = f.print();
    for variant in [text.clone(), format!("    {text}"), format!("\t{text}")] {
        let r = guarded(|| proguard::StackFrame::try_parse(variant.as_bytes()).map(|p| (p.class().to_string(), p.method().to_string(), p.line() as u64, p.file().map(|s| s.to_string()), p.to_string())))
            .map_err(|p| Fail::new("parse-panic", p))?;
        match r {
            Some((c, m, l, file, printed)) if c == f.class && m == f.method && l == f.line && file == f.file && printed == text => {}
            other => return Err(Fail::new("frame-roundtrip", format!("frame {variant:?} parsed to {other:?}, expected {f:?}"))),
        }
    }
    Ok(())
}

pub fn check_throwable(t: &ThrowableAst, st: &mut Stats) -> Check {
    st.evaluations += 1;
    let text = t.print();
    let r = guarded(|| proguard::Throwable::try_parse(text.as_bytes()).map(|p| (p.class().to_string(), p.message().map(|s| s.to_string()), p.to_string()))).map_err(|p| Fail::new("parse-panic", p))?;
    match r {
        Some((c, m, printed)) if c == t.class && m == t.message && printed == text => Ok(()),
        other => Err(Fail::new("throwable-roundtrip", format!("throwable {text:?} parsed to {other:?}, expected {t:?}"))),
    }
}

#[derive(Clone, Debug, Serialize, Deserialize)]
pub enum Case {
    Trace(TraceAst),
    Frame(FrameAst),
    Throwable(ThrowableAst),
}

pub fn case() -> BoxedStrategy<Case> {
    let p = pool();
    // long messages / class names around 16-bit and LEB-style length boundaries
    let long_thr = (select(&[255usize, 256, 4096, 65535, 65536, 65537, 100_000][..]), trace::throwable(&p), any::<bool>()).prop_map(|(n, mut t, in_class)| {
        if in_class {
            t.class = format!("a.{}", "b".repeat(n));
        } else {
            t.message = Some(format!("m{}:", "x: ".repeat(n / 3)));
        }
        Case::Trace(TraceAst { exception: Some(t), frames: vec![], cause: None })
    });
    prop_oneof![
        60 => trace::trace(&p, 20, 4).prop_map(Case::Trace),
        1 => trace::deep_trace(&p).prop_map(Case::Trace),
        1 => trace::long_trace(&p).prop_map(Case::Trace),
        1 => long_thr,
        20 => trace::frame(&p).prop_map(Case::Frame),
        20 => trace::throwable(&p).prop_map(Case::Throwable),
    ]
    .boxed()
}

pub fn check(c: &Case, st: &mut Stats) -> Check {
    match c {
        Case::Trace(t) => check_trace(t, st),
        Case::Frame(f) => {
            let t = TraceAst { exception: None, frames: vec![f.clone()], cause: None };
            if !in_domain(&t) {
                return Ok(());
            }
            check_frame(f, st)
        }
        Case::Throwable(t) => {
            let tr = TraceAst { exception: Some(t.clone()), frames: vec![], cause: None };
            if !in_domain(&tr) {
                return Ok(());
            }
            check_throwable(t, st)
        }
    }
}

pub fn run(ctx: &Ctx) -> Report {
    let mut rep = Report::new(ID, "exploration", ctx);
    rep.rule = "Generated: typed traces in the statement's domain (throwable class without whitespace, optional non-empty trimmed single-line message from a pool containing ': ', 'Caused by: x', 'at a.b(c:1)', 'x)', non-ASCII; frames with class, dot-free method, present colon-free file incl. '', 'a(b)', '<unknown>', 'Native Method'; any line number incl. 2^32 and 2^64-1; 0..20 frames; cause chain depth 0..4 where causes carry a throwable; top-level throwable present or absent but never an empty top level), plus single frames (bare, 4-space and tab indented) and throwables. Oracle: try_parse(print(T)) == Some(T), print(parse(print(T))) == print(T), and the library's Display equals the documented format. evaluations = round trips. Non-trivial = distinct traces with >=1 frame and (a cause or a message containing a delimiter).".into();
    rep.run_stage("roundtrip", case, ctx.cases(500_000, 24_000_000), check);
    rep
}

pub fn replay(stage: &str, case: &Value) -> Check {
    let mut st = Stats::new();
    match stage {
        "roundtrip" => check(&serde_json::from_value(case.clone()).map_err(|e| Fail::new("harness-replay", e.to_string()))?, &mut st),
        _ => Err(Fail::new("harness-replay", format!("unknown stage {stage}"))),
    }
}

//! C18 — the mapping UUID is the stable content-derived identifier other tools compute.

use crate::engine::{fnv64, guarded, hex, show_bytes, unhex, Check, Ctx, Fail, Report, Stats};
use crate::gen::mapping::{Eol, GenCfg, Render};
use crate::model::sha1;
use proptest::collection::vec;
use proptest::prelude::*;
use serde::{Deserialize, Serialize};
use serde_json::{json, Value};
use std::io::{Read, Write};
use std::process::{Command, Stdio};
use std::sync::Mutex;

pub const ID: &str = "C18";

/// literal ids pinned by the repository's feature-gated tests (file, crlf variant, id)
pub const LITERALS: &[(&str, bool, &str)] = &[
    ("/repo/tests/res/mapping-inlines.txt", false, "3828bd45-950f-5e77-9737-b6b3a1d80299"),
    ("/repo/tests/res/mapping.txt", false, "5cd8e873-1127-5276-81b7-8ff25043ecfd"),
    ("/repo/tests/res/mapping.txt", true, "71d468f2-0dc4-5017-9f12-1a81081913ef"),
    ("/repo/tests/res/mapping-r8.txt", false, "c96fb926-797c-53de-90ee-df2aeaf28340"),
    ("/repo/tests/res/mapping-r8.txt", true, "d8b03b44-58df-5cd7-adc7-aefcfb0e2ade"),
];

pub fn lib_uuid(bytes: &[u8]) -> Result<String, String> {
    guarded(|| proguard::ProguardMapping::new(bytes).uuid().to_string())
}

pub fn check_bytes(bytes: &[u8], st: &mut Stats) -> Result<String, Fail> {
    st.evaluations += 1;
    let want = sha1::mapping_uuid(bytes);
    let got = lib_uuid(bytes).map_err(|p| Fail::new("uuid-panic", p))?;
    if !bytes.is_empty() {
        st.nontrivial(fnv64(bytes));
    }
    match bytes.len() % 64 {
        55 | 56 | 63 | 0 => st.class("length mod 64 in {55,56,63,0} (SHA-1 padding boundary)"),
        _ => {}
    }
    if bytes.len() >= 65536 {
        st.class(">= 64 KiB");
    }
    if got != want {
        return Err(Fail::new("uuid-mismatch", format!("uuid() = {got} but UUIDv5(UUIDv5(DNS,'guardsquare.com'), bytes) = {want} for {} bytes {:?}", bytes.len(), show_bytes(&bytes[..bytes.len().min(120)]))).with(json!({"hex": if bytes.len() < 4096 { hex(bytes) } else { String::new() }, "len": bytes.len()})));
    }
    // a second evaluation in the same process gives the same id (no hidden state)
    let again = lib_uuid(bytes).map_err(|p| Fail::new("uuid-panic", p))?;
    if again != got {
        return Err(Fail::new("uuid-unstable", format!("two calls returned {got} and {again}")));
    }
    Ok(got)
}

#[derive(Clone, Debug, Serialize, Deserialize)]
pub struct RawCase {
    pub hex: String,
}

pub fn raw_case() -> BoxedStrategy<RawCase> {
    prop_oneof![
        5 => vec(any::<u8>(), 0..200),
        3 => (0usize..6, prop_oneof![Just(55usize), Just(56), Just(63), Just(64), Just(119), Just(120), Just(128)], any::<u8>()).prop_map(|(k, base, b)| vec![b; base + 64 * k]),
        1 => vec(any::<u8>(), 4000..9000),
    ]
    .prop_map(|v| RawCase { hex: hex(&v) })
    .boxed()
}

/// child: read framed inputs, print uuid per input
pub fn child_main() -> i32 {
    let mut input = Vec::new();
    if std::io::stdin().read_to_end(&mut input).is_err() {
        return 2;
    }
    // split the frames first
    let mut frames: Vec<&[u8]> = Vec::new();
    let mut at = 0;
    while at + 4 <= input.len() {
        let len = u32::from_le_bytes([input[at], input[at + 1], input[at + 2], input[at + 3]]) as usize;
        at += 4;
        frames.push(&input[at..at + len]);
        at += len;
    }
    // a process has exactly one "first call": 16 threads released together make the very first uuid() calls of this
    // process (thread t on input t mod k); what they get is compared with the sequential answers below
    let k = frames.len().min(16);
    let mut raced: Vec<Vec<String>> = vec![Vec::new(); k];
    if k > 0 {
        let gate = std::sync::atomic::AtomicUsize::new(0);
        let results: Vec<(usize, String)> = std::thread::scope(|sc| {
            let hs: Vec<_> = (0..16usize)
                .map(|t| {
                    let (frames, gate) = (&frames, &gate);
                    sc.spawn(move || {
                        gate.fetch_add(1, std::sync::atomic::Ordering::AcqRel);
                        while gate.load(std::sync::atomic::Ordering::Acquire) < 16 {
                            std::hint::spin_loop();
                        }
                        (t % k, lib_uuid(frames[t % k]).unwrap_or_else(|e| format!("ERR {e}")))
                    })
                })
                .collect();
            hs.into_iter().filter_map(|h| h.join().ok()).collect()
        });
        for (i, u) in results {
            raced[i].push(u);
        }
    }
    let out = std::io::stdout();
    let mut out = out.lock();
    for (i, b) in frames.iter().enumerate() {
        let seq = lib_uuid(b).unwrap_or_else(|e| format!("ERR {e}"));
        match raced.get(i).and_then(|rs| rs.iter().find(|r| **r != seq)) {
            Some(r) => {
                let _ = writeln!(out, "{r} (answer of a thread racing the first uuid() call of the process; sequentially {seq})");
            }
            _ => {
                let _ = writeln!(out, "{seq}");
            }
        }
    }
    0
}

pub fn run_children(inputs: &[Vec<u8>], n: usize) -> Result<Vec<Vec<String>>, String> {
    let exe = std::env::current_exe().map_err(|e| e.to_string())?;
    let mut framed = Vec::new();
    for m in inputs {
        framed.extend_from_slice(&(m.len() as u32).to_le_bytes());
        framed.extend_from_slice(m);
    }
    let mut out = Vec::new();
    let mut kids = Vec::new();
    for k in 0..n {
        let mut cmd = Command::new(&exe);
        cmd.arg("c18-child").arg("x");
        // child k + 1: the first child of C18 already runs under a non-default environment
        super::c14::child_env(k + 1, &mut cmd);
        let mut child = cmd.stdin(Stdio::piped()).stdout(Stdio::piped()).spawn().map_err(|e| e.to_string())?;
        let mut stdin = child.stdin.take().unwrap();
        let data = framed.clone();
        let feeder = std::thread::spawn(move || {
            let _ = stdin.write_all(&data);
        });
        kids.push((child, feeder));
    }
    for (mut child, feeder) in kids {
        let mut s = String::new();
        child.stdout.take().unwrap().read_to_string(&mut s).map_err(|e| e.to_string())?;
        let _ = feeder.join();
        let _ = child.wait();
        out.push(s.lines().map(|l| l.to_string()).collect());
    }
    Ok(out)
}

/// API sequences: the id depends on nothing but the bytes of *this* mapping — not on earlier calls, on the buffer
/// being reused in place, or on the object the mapping was derived from (`section`, `clone`).
#[derive(Clone, Debug, Serialize, Deserialize)]
pub struct SeqCase {
    pub len: usize,
    pub seed: u64,
    /// (position fraction, new byte) edits applied in place between calls
    pub edits: Vec<(u16, u8)>,
    /// (start fraction, end fraction) sections taken after the parent's id was computed
    pub sections: Vec<(u16, u16)>,
    /// the buffer starts with a UTF-8 byte order mark
    #[serde(default)]
    pub bom: bool,
    /// (position fraction, position fraction, kind) permutation-style edits: they preserve length and every
    /// commutative digest of the content (sum / xor of bytes or words)
    #[serde(default)]
    pub swaps: Vec<(u16, u16, u8)>,
}

pub fn seq_case() -> BoxedStrategy<SeqCase> {
    (
        prop_oneof![4 => 1usize..300, 2 => 4000usize..9000, 2 => Just(65536usize), 1 => 65537usize..70000, 1 => Just(1usize << 20)],
        any::<u64>(),
        vec((any::<u16>(), any::<u8>()), 1..5),
        vec((any::<u16>(), any::<u16>()), 1..4),
        prop::bool::weighted(0.3),
        vec((any::<u16>(), any::<u16>(), 0u8..8), 1..7),
    )
        .prop_map(|(len, seed, edits, sections, bom, swaps)| SeqCase { len, seed, edits, sections, bom, swaps })
        .boxed()
}

pub fn check_seq(c: &SeqCase, st: &mut Stats) -> Check {
    let mut x = c.seed | 1;
    let mut buf: Vec<u8> = (0..c.len)
        .map(|_| {
            x ^= x << 13;
            x ^= x >> 7;
            x ^= x << 17;
            (x >> 24) as u8
        })
        .collect();
    let check = |b: &[u8], what: &str, st: &mut Stats| -> Check {
        st.evaluations += 1;
        let want = sha1::mapping_uuid(b);
        let got = lib_uuid(b).map_err(|p| Fail::new("uuid-panic", p))?;
        if got != want {
            return Err(Fail::new("uuid-history", format!("{what}: uuid() = {got}, independent computation = {want} ({} bytes)", b.len())));
        }
        Ok(())
    };
    if c.bom && buf.len() >= 3 {
        buf[..3].copy_from_slice(b"\xef\xbb\xbf");
        st.class("buffer starting with a UTF-8 byte order mark");
    }
    check(&buf, "first call", st)?;
    st.nontrivial(fnv64(&buf) ^ c.seed);
    // permutation-style edits of the same allocation: swap two bytes at a distance that is a multiple of 8, swap two
    // aligned 8-byte words, swap two 64-byte blocks, reverse a run
    for (a, b, kind) in &c.swaps {
        let n = buf.len();
        if n < 16 {
            break;
        }
        let i = (((*a as usize) * (n / 8)) >> 16) * 8;
        let j = (((*b as usize) * (n / 8)) >> 16) * 8;
        if i == j {
            continue;
        }
        if *kind >= 4 {
            // finite-difference patterns: coefficients (-1)^k C(d,k) added to d+1 equally spaced bytes leave every
            // weighted sum sum(i^m * b_i), m < d, unchanged (checksums of the Fletcher / Adler / two-moment kind), for
            // byte-, word- and block-wise weights alike when the spacing is a multiple of 8
            let d = [2usize, 3, 4, 2][(*kind as usize - 4) % 4];
            let spacing = [8usize, 64, 8, 1][(*kind as usize - 4) % 4] * (1 + (*b as usize % 3));
            let coef: &[i16] = match d {
                2 => &[1, -2, 1],
                3 => &[1, -3, 3, -1],
                _ => &[1, -4, 6, -4, 1],
            };
            if i + d * spacing < n && coef.iter().enumerate().all(|(k, c)| (0..=255).contains(&(buf[i + k * spacing] as i16 + c))) {
                for (k, c) in coef.iter().enumerate() {
                    buf[i + k * spacing] = (buf[i + k * spacing] as i16 + c) as u8;
                }
                st.class("finite-difference in-place edit (weighted byte sums up to degree d-1 unchanged)");
                check(&buf, "after a finite-difference in-place edit (length, byte sum and position-weighted byte sums unchanged)", st)?;
            }
            continue;
        }
        match kind % 4 {
            0 => buf.swap(i, j),
            1 => {
                if i + 8 <= n && j + 8 <= n && (i + 8 <= j || j + 8 <= i) {
                    for k in 0..8 {
                        buf.swap(i + k, j + k);
                    }
                }
            }
            2 => {
                let (i, j) = (i.min(j), i.max(j));
                if j + 64 <= n && i + 64 <= j {
                    for k in 0..64 {
                        buf.swap(i + k, j + k);
                    }
                }
            }
            _ => {
                let (i, j) = (i.min(j), i.max(j));
                buf[i..j].reverse();
            }
        }
        check(&buf, "after a permutation-style in-place edit (length and byte multiset unchanged)", st)?;
    }
    st.class("permutation-style in-place edits");
    // in-place edits of the same allocation (same address, same length); the middle, the edges, single bytes
    for (pos, byte) in &c.edits {
        let at = ((*pos as usize) * buf.len()) >> 16;
        buf[at] = buf[at].wrapping_add(byte | 1);
        check(&buf, "after an in-place edit of the same buffer", st)?;
    }
    if buf.len() > 9000 {
        let mid = buf.len() / 2;
        buf[mid] ^= 0x5a;
        check(&buf, "after editing only the middle of a large buffer", st)?;
        st.class("large buffer edited in place (same address and length, edges unchanged)");
    }
    if buf.len() > (1 << 20) {
        // a different file that lands on the address of the previous one: free the buffer and allocate one of the
        // same length (large allocations are mapped and unmapped directly, so the address is normally reused)
        let (old_addr, n) = (buf.as_ptr() as usize, buf.len());
        let keep: Vec<u8> = buf[..64].to_vec();
        drop(buf);
        let mut fresh: Vec<u8> = vec![b'#'; n];
        fresh[..64].copy_from_slice(&keep);
        fresh[n / 3] = b'\n';
        if fresh.as_ptr() as usize == old_addr {
            st.class("a new buffer of the same length at the address of the freed one");
        }
        check(&fresh, "a new buffer of the same length (first 64 bytes equal) allocated after the previous one was freed", st)?;
        buf = fresh;
    }
    // sections and clones of a mapping whose id was already computed
    let parent = proguard::ProguardMapping::new(&buf);
    let pid = guarded(|| parent.uuid().to_string()).map_err(|p| Fail::new("uuid-panic", p))?;
    for (a, b) in &c.sections {
        let mut s = ((*a as usize) * (buf.len() + 1)) >> 16;
        let mut e = ((*b as usize) * (buf.len() + 1)) >> 16;
        if s > e {
            std::mem::swap(&mut s, &mut e);
        }
        st.evaluations += 1;
        let got = guarded(|| parent.section(s..e).uuid().to_string()).map_err(|p| Fail::new("uuid-panic", p))?;
        let want = sha1::mapping_uuid(&buf[s..e]);
        if got != want {
            return Err(Fail::new("uuid-section", format!("section({s}..{e}) of a {}-byte mapping whose uuid() was already computed: uuid() = {got}, independent computation over the section's bytes = {want} (parent id {pid})", buf.len())));
        }
        let cloned = guarded(|| parent.section(s..e).clone().uuid().to_string()).map_err(|p| Fail::new("uuid-panic", p))?;
        if cloned != want {
            return Err(Fail::new("uuid-section", format!("clone of section({s}..{e}): uuid() = {cloned}, expected {want}")));
        }
    }
    st.class("section()/clone() after the parent's uuid()");
    if st.want_sample() {
        st.sample(|| json!({"buffer length": c.len, "starts with BOM": c.bom, "in-place edits": c.edits, "permutation edits": c.swaps, "sections (fractions)": c.sections}));
    }
    Ok(())
}

pub fn run(ctx: &Ctx) -> Report {
    let mut rep = Report::new(ID, "exploration", ctx);
    rep.rule = "Inputs: the empty input, random byte strings (0..200 bytes, lengths around the 55/56/63/64-byte SHA-1 padding boundaries and their multiples, 4-9 KB, 1 MiB in thorough), generated mappings rendered with LF and with CRLF, corpus files in LF and CRLF variants. Oracle: uuid() == UUIDv5(ns = UUIDv5(DNS,'guardsquare.com'), bytes) computed by an independent SHA-1 (self-tested against FIPS 180 vectors and the five literal ids of the repository's feature-gated tests); LF and CRLF renderings of the same AST get different ids; repeated calls and 4 separately started child processes return the same id; API sequences (in-place edits of one buffer incl. >= 64 KiB buffers whose edges stay unchanged, section() and clone() after uuid() of the parent) give the id of the current bytes. evaluations = uuid computations compared. Non-trivial = distinct inputs of length >= 1.".into();
    rep.assumptions = vec!["SHA-1 model verified at start-up against FIPS 180 vectors (abc, empty, 448-bit message, one million 'a'), RFC 4122 DNS namespace, and Python's uuid module (namespace 4f44f30f-24be-53d0-bab6-f47c7120ad6c, empty input 0e71d76c-5067-5a02-a5d9-7e81070eb125)".into()];
    if let Err(e) = sha1::self_test() {
        rep.stats.skipped.push(format!("SHA-1 model self-test failed: {e}"));
        rep.stats.notes.push("model broken; no verdict".into());
        rep.stats.evaluations = 1;
        return rep;
    }
    let collected: Mutex<Vec<(Vec<u8>, String)>> = Mutex::new(Vec::new());
    rep.run_stage("bytes", raw_case, ctx.cases(60_000, 2_400_000), |c: &RawCase, st: &mut Stats| {
        let b = unhex(&c.hex);
        if st.want_sample() && b.len() > 8 && b.len() < 64 {
            st.sample(|| json!({"input_hex": c.hex, "uuid": sha1::mapping_uuid(&b)}));
        }
        let id = check_bytes(&b, st)?;
        if st.cases % 16 == 0 {
            collected.lock().unwrap().push((b, id));
        }
        Ok(())
    });
    rep.run_stage("sequences", seq_case, ctx.cases(3_000, 60_000), check_seq);
    // the same API sequences on buffers well beyond every size the other stages reach (16 MiB+, 32 MiB+, ...)
    let big: Vec<SeqCase> = ctx
        .tier
        .pick(&[(17usize << 20) + 3, 33 << 20][..], &[(17usize << 20) + 3, 33 << 20, (64 << 20) + 1, 130 << 20][..])
        .iter()
        .enumerate()
        .map(|(i, len)| SeqCase { len: *len, seed: ctx.seed ^ (i as u64 + 1), edits: vec![(0, 1), (65535, 7), (32768, 3)], sections: vec![(0, 32768), (1, 65535)], bom: i % 2 == 1, swaps: vec![(100, 60000, 0), (5, 40000, 2), (300, 1, 4), (7000, 2, 5), (40000, 0, 6), (65000, 1, 7)] })
        .collect();
    rep.run_enum("big-sequences", &big, check_seq);
    rep.run_enum("default-objects", &[0u8], super::common::check_default_objects);
    let cfg = GenCfg { plain_sourcefile_headers: true, ..GenCfg::default() };
    rep.run_stage("mappings", move || super::common::map_case(&cfg), ctx.cases(20_000, 900_000), |c: &super::common::MapCase, st: &mut Stats| {
        let lf = c.file.render(&Render { eol: Eol::Lf, final_eol: true });
        let crlf = c.file.render(&Render { eol: Eol::CrLf, final_eol: true });
        let a = check_bytes(&lf, st)?;
        let b = check_bytes(&crlf, st)?;
        check_bytes(&c.bytes(), st)?;
        if lf != crlf {
            st.class("LF vs CRLF rendering of the same AST");
            if a == b {
                return Err(Fail::new("uuid-normalised", format!("LF and CRLF renderings of the same mapping got the same id {a}: line endings are being normalised")));
            }
        }
        if !proguard::ProguardMapping::new(&lf).is_valid() {
            st.class("input that is not a valid mapping");
        }
        Ok(())
    });
    // corpus + literal ids + big inputs (sequential)
    let mut st = Stats::new();
    let mut extra: Vec<Vec<u8>> = vec![Vec::new()];
    for p in super::c02::corpus_files() {
        if let Ok(b) = std::fs::read(&p) {
            extra.push(crate::gen::mutate::to_crlf(&b));
            extra.push(b);
        }
    }
    // size thresholds: 2^16, 2^20 (+-1) always; 2^24+1 and 2^26+3 in the thorough tier
    let mut sizes: Vec<usize> = vec![65535, 65536, 65537, (1 << 20) - 1, 1 << 20, (1 << 20) + 1, 3 * (1 << 20) + 5];
    if ctx.tier == crate::engine::Tier::Thorough {
        sizes.extend([(1 << 24) + 1, (1 << 26) + 3]);
    }
    for (k, n) in sizes.into_iter().enumerate() {
        extra.push((0..n).map(|j| ((j as u64).wrapping_mul(2654435761).wrapping_add(k as u64) >> 7) as u8).collect());
    }
    // leading byte order marks / trailing whitespace / NUL bytes must all count
    for pre in [&b"\xef\xbb\xbf"[..], b"\xff\xfe", b"\0", b" ", b"\n"] {
        for post in [&b""[..], b"\n", b"\r\n", b" ", b"\0", b"\x1a"] {
            let mut v = pre.to_vec();
            v.extend_from_slice(b"com.example.Foo -> a:\n    1:1:void m():2 -> b");
            v.extend_from_slice(post);
            extra.push(v);
        }
    }
    if ctx.tier == crate::engine::Tier::Thorough {
        for i in 0..40u64 {
            let n = (1 << 20) - 70 + (i as usize * 7) % 140;
            extra.push((0..n).map(|j| (j as u64).wrapping_mul(6364136223846793005).wrapping_add(i).to_le_bytes()[3]).collect());
        }
    }
    for b in &extra {
        st.cases += 1;
        match check_bytes(b, &mut st) {
            Ok(id) => collected.lock().unwrap().push((b.clone(), id)),
            Err(f) => rep.fail("corpus", json!({"len": b.len(), "hex": if b.len() < 4096 { hex(b) } else { String::new() }}), f),
        }
    }
    for (path, crlf, want) in LITERALS {
        if let Ok(mut b) = std::fs::read(path) {
            if *crlf {
                b = crate::gen::mutate::to_crlf(&b);
            }
            st.evaluations += 1;
            let model = sha1::mapping_uuid(&b);
            if model != *want {
                // the model disagrees with a literal pinned by the repository: the model (or the corpus file) is off, no verdict
                rep.stats.skipped.push(format!("model gives {model} for {path} (crlf={crlf}) but the repository's test pins {want}"));
            } else {
                st.class("literal id of the repository's feature-gated tests reproduced by the model");
            }
        }
    }
    rep.stats.merge(st);
    let mut all = collected.into_inner().unwrap();
    all.sort();
    all.dedup();
    let inputs: Vec<Vec<u8>> = all.iter().map(|(b, _)| b.clone()).collect();
    match run_children(&inputs, 8) {
        Err(e) => rep.stats.skipped.push(format!("cross-process stage could not run: {e}")),
        Ok(outs) => {
            for (ci, lines) in outs.iter().enumerate() {
                if lines.len() != all.len() {
                    rep.stats.skipped.push(format!("child {ci}: {} lines for {} inputs", lines.len(), all.len()));
                    continue;
                }
                for (i, l) in lines.iter().enumerate() {
                    rep.stats.evaluations += 1;
                    if *l != all[i].1 {
                        rep.fail("xproc", json!({"hex": if all[i].0.len() < 4096 { hex(&all[i].0) } else { String::new() }}), Fail::new("uuid-process-differs", format!("child process {ci} computed {l}, the parent {}", all[i].1)));
                        break;
                    }
                }
            }
            rep.stats.class_n("inputs recomputed by 4 child processes", all.len() as u64);
        }
    }
    rep
}

pub fn replay(stage: &str, case: &Value) -> Check {
    if stage == "default-objects" {
        return super::common::check_default_objects(&0, &mut Stats::new());
    }
    let mut st = Stats::new();
    sha1::self_test().map_err(|e| Fail::new("harness-replay", e))?;
    match stage {
        "bytes" | "corpus" | "xproc" => {
            let b = unhex(case["hex"].as_str().unwrap_or(""));
            check_bytes(&b, &mut st).map(|_| ())
        }
        "sequences" | "big-sequences" => check_seq(&serde_json::from_value(case.clone()).map_err(|e| Fail::new("harness-replay", e.to_string()))?, &mut st),
        "mappings" => {
            let c: super::common::MapCase = serde_json::from_value(case.clone()).map_err(|e| Fail::new("harness-replay", e.to_string()))?;
            let lf = c.file.render(&Render { eol: Eol::Lf, final_eol: true });
            let crlf = c.file.render(&Render { eol: Eol::CrLf, final_eol: true });
            let a = check_bytes(&lf, &mut st)?;
            let b = check_bytes(&crlf, &mut st)?;
            if lf != crlf && a == b {
                return Err(Fail::new("uuid-normalised", "LF and CRLF renderings got the same id"));
            }
            Ok(())
        }
        _ => Err(Fail::new("harness-replay", format!("unknown stage {stage}"))),
    }
}

//! C12 — no buffer accepted as a cache can make a query panic, overflow or read outside.

use super::common::*;
use crate::api::proguard as cur;
use crate::api::{AlignedBuf, Retracer};
use crate::engine::{fnv64, guarded, hex, sample_n, Check, Ctx, Fail, Report, Stats};
use crate::gen::mapping::GenCfg;
use crate::gen::trace;
use crate::gen::universe::Universe;
use crate::model::layout::{self, CLASS_LEN, HEADER_LEN, MEMBER_LEN};
use proptest::collection::vec;
use proptest::prelude::*;
use serde::{Deserialize, Serialize};
use serde_json::{json, Value};

pub const ID: &str = "C12";

pub fn cfg() -> GenCfg {
    GenCfg { plain_sourcefile_headers: false, max_blocks: 5, max_items: 7, long: 1, overloads: true, ..GenCfg::default() }
}

#[derive(Clone, Debug, Serialize, Deserialize, PartialEq, Eq)]
pub enum ValSel {
    Zero,
    One,
    Two,
    /// one of the four header counts (classes, members, by-params, string bytes) minus 1 / exactly / plus 1
    CountMinus1(u8),
    Count(u8),
    CountPlus1(u8),
    P31,
    MaxMinus1,
    Max,
    Small(u8),
    /// keep the old value +1 / -1
    Inc,
    Dec,
}

#[derive(Clone, Debug, Serialize, Deserialize, PartialEq, Eq)]
pub enum Corr {
    /// section: 0 header, 1 classes, 2 members, 3 by-params; rec: scaled record index; field: 32-bit field index
    SetField { section: u8, rec: u16, field: u8, value: ValSel },
    SwapRecs { section: u8, a: u16, b: u16 },
    DupRec { section: u8, from: u16, to: u16 },
    BitFlips(Vec<(u16, u8)>),
    /// corrupt the LEB128 prefix at the `which`-th string: 0 = 0x00, 1 = 0x80 0x80 .. (unterminated), 2 = huge, 3 = +1
    StringPrefix { which: u16, kind: u8 },
    StringUtf8 { which: u16, at: u8 },
    /// overwrite everything behind the header with pseudo-random bytes
    RandomTail(u64),
    /// truncate the string section contents with zeros from a point
    ZeroFrom(u16),
}

#[derive(Clone, Debug, Serialize, Deserialize)]
pub struct CorruptCase {
    pub map: MapCase,
    pub corr: Vec<Corr>,
}

pub fn valsel() -> impl Strategy<Value = ValSel> {
    prop_oneof![
        3 => Just(ValSel::Zero),
        2 => Just(ValSel::One),
        1 => Just(ValSel::Two),
        2 => (0u8..4).prop_map(ValSel::CountMinus1),
        2 => (0u8..4).prop_map(ValSel::Count),
        1 => (0u8..4).prop_map(ValSel::CountPlus1),
        2 => Just(ValSel::P31),
        2 => Just(ValSel::MaxMinus1),
        3 => Just(ValSel::Max),
        2 => any::<u8>().prop_map(ValSel::Small),
        1 => Just(ValSel::Inc),
        1 => Just(ValSel::Dec),
    ]
}

pub fn corr() -> impl Strategy<Value = Corr> {
    prop_oneof![
        12 => (0u8..4, any::<u16>(), 0u8..9, valsel()).prop_map(|(section, rec, field, value)| Corr::SetField { section, rec, field, value }),
        2 => (1u8..4, any::<u16>(), any::<u16>()).prop_map(|(section, a, b)| Corr::SwapRecs { section, a, b }),
        2 => (1u8..4, any::<u16>(), any::<u16>()).prop_map(|(section, from, to)| Corr::DupRec { section, from, to }),
        3 => vec((any::<u16>(), 0u8..8), 1..8).prop_map(Corr::BitFlips),
        3 => (any::<u16>(), 0u8..8).prop_map(|(which, kind)| Corr::StringPrefix { which, kind }),
        2 => (any::<u16>(), any::<u8>()).prop_map(|(which, at)| Corr::StringUtf8 { which, at }),
        1 => any::<u64>().prop_map(Corr::RandomTail),
        1 => any::<u16>().prop_map(Corr::ZeroFrom),
    ]
}

/// corruption of larger caches (hundreds of members per class: longer binary-search / range-expansion paths)
pub fn tall_corrupt_case() -> BoxedStrategy<CorruptCase> {
    (tall_case(&cfg()), vec(corr(), 1..4)).prop_map(|(map, corr)| CorruptCase { map, corr }).boxed()
}

pub fn corrupt_case() -> BoxedStrategy<CorruptCase> {
    (map_case(&cfg()), vec(corr(), 1..4)).prop_map(|(map, corr)| CorruptCase { map, corr }).boxed()
}

fn idx(frac: u16, len: usize) -> usize {
    ((frac as usize) * len) >> 16
}

fn get_u32(b: &[u8], at: usize) -> u32 {
    u32::from_le_bytes([b[at], b[at + 1], b[at + 2], b[at + 3]])
}

fn put_u32(b: &mut [u8], at: usize, v: u32) {
    b[at..at + 4].copy_from_slice(&v.to_le_bytes());
}

/// Apply a corruption in place. Layout positions come from the *valid* file's header.
pub fn apply(buf: &mut [u8], h: &layout::Header, c: &Corr) -> &'static str {
    let (c_at, m_at, b_at, s_at, end) = layout::offsets(h);
    let counts = [h.num_classes, h.num_members, h.num_members_by_params, h.string_bytes];
    let section = |s: u8| -> (usize, usize, usize, usize) {
        // (start, record length, record count, fields per record)
        match s {
            0 => (0, HEADER_LEN, 1, 6),
            1 => (c_at, CLASS_LEN, h.num_classes as usize, 7),
            2 => (m_at, MEMBER_LEN, h.num_members as usize, 9),
            _ => (b_at, MEMBER_LEN, h.num_members_by_params as usize, 9),
        }
    };
    match c {
        Corr::SetField { section: s, rec, field, value } => {
            let (start, rl, n, nf) = section(*s);
            if n == 0 {
                return "noop";
            }
            let at = start + idx(*rec, n) * rl + (*field as usize % nf) * 4;
            let old = get_u32(buf, at);
            let v = match value {
                ValSel::Zero => 0,
                ValSel::One => 1,
                ValSel::Two => 2,
                ValSel::CountMinus1(k) => counts[*k as usize % 4].wrapping_sub(1),
                ValSel::Count(k) => counts[*k as usize % 4],
                ValSel::CountPlus1(k) => counts[*k as usize % 4].wrapping_add(1),
                ValSel::P31 => 1 << 31,
                ValSel::MaxMinus1 => u32::MAX - 1,
                ValSel::Max => u32::MAX,
                ValSel::Small(x) => *x as u32,
                ValSel::Inc => old.wrapping_add(1),
                ValSel::Dec => old.wrapping_sub(1),
            };
            put_u32(buf, at, v);
            "set-field"
        }
        Corr::SwapRecs { section: s, a, b } => {
            let (start, rl, n, _) = section(*s);
            if n < 2 {
                return "noop";
            }
            let (i, j) = (idx(*a, n), idx(*b, n));
            for k in 0..rl {
                buf.swap(start + i * rl + k, start + j * rl + k);
            }
            "swap-records"
        }
        Corr::DupRec { section: s, from, to } => {
            let (start, rl, n, _) = section(*s);
            if n < 2 {
                return "noop";
            }
            let (i, j) = (idx(*from, n), idx(*to, n));
            let rec: Vec<u8> = buf[start + i * rl..start + (i + 1) * rl].to_vec();
            buf[start + j * rl..start + (j + 1) * rl].copy_from_slice(&rec);
            "duplicate-record"
        }
        Corr::BitFlips(fl) => {
            for (p, bit) in fl {
                if !buf.is_empty() {
                    let at = idx(*p, buf.len());
                    buf[at] ^= 1 << (bit % 8);
                }
            }
            "bit-flips"
        }
        Corr::StringPrefix { which, kind } => {
            let starts: Vec<u32> = layout::string_table(&buf[s_at..end]).map(|t| t.keys().copied().collect()).unwrap_or_default();
            if starts.is_empty() {
                return "noop";
            }
            let at = s_at + starts[idx(*which, starts.len())] as usize;
            let put = |buf: &mut [u8], bytes: &[u8]| {
                for (k, b) in bytes.iter().enumerate() {
                    if at + k < end {
                        buf[at + k] = *b;
                    }
                }
            };
            match kind % 8 {
                // lengths at the edge of 32 / 64 bits: u64::MAX, 2^63, u32::MAX, 2^32, usize-overflowing sums
                4 => put(buf, &[0xff, 0xff, 0xff, 0xff, 0xff, 0xff, 0xff, 0xff, 0xff, 0x01]),
                5 => put(buf, &[0x80, 0x80, 0x80, 0x80, 0x80, 0x80, 0x80, 0x80, 0x80, 0x01]),
                6 => put(buf, &[0xff, 0xff, 0xff, 0xff, 0x0f]),
                7 => put(buf, &[0x80, 0x80, 0x80, 0x80, 0x10]),
                0 => buf[at] = 0,
                1 => {
                    for k in at..(at + 12).min(end) {
                        buf[k] = 0x80;
                    }
                }
                2 => buf[at] = 0x7f,
                _ => buf[at] = buf[at].wrapping_add(1),
            }
            "string-prefix"
        }
        Corr::StringUtf8 { which, at: off } => {
            let tab: Vec<(u32, usize)> = layout::string_table(&buf[s_at..end]).map(|t| t.iter().map(|(k, v)| (*k, v.len())).collect()).unwrap_or_default();
            if tab.is_empty() {
                return "noop";
            }
            let (start, len) = tab[idx(*which, tab.len())];
            let plen = layout::leb128_encode(len as u64).len();
            let at = s_at + start as usize + plen + (*off as usize % len.max(1));
            if at < end {
                buf[at] = 0xff;
            }
            "string-utf8"
        }
        Corr::RandomTail(seed) => {
            let mut x = *seed | 1;
            for b in buf[HEADER_LEN..].iter_mut() {
                x ^= x << 13;
                x ^= x >> 7;
                x ^= x << 17;
                *b = (x >> 24) as u8;
            }
            "random-tail"
        }
        Corr::ZeroFrom(p) => {
            let n = end - s_at;
            let from = s_at + idx(*p, n.max(1));
            for b in buf[from..end].iter_mut() {
                *b = 0;
            }
            "zero-strings"
        }
    }
}

pub struct Queries {
    pub u: Universe,
    pub lines: Vec<u64>,
    pub texts: Vec<String>,
    pub typed: Vec<crate::api::TraceAst>,
    pub sigs: Vec<String>,
}

pub fn queries_for(case: &MapCase) -> Queries {
    let u = Universe::from_ast(&case.file, false);
    let mut lines: Vec<u64> = vec![0, 1, 2, u32::MAX as u64 - 1, u32::MAX as u64, 1 << 32, u64::MAX, u64::MAX - 1, 1 << 31];
    // range boundaries
    for l in &u.lines {
        if *l > 66 || *l < 3 {
            lines.push(*l);
        }
    }
    for b in &case.file.blocks {
        for it in &b.items {
            if let crate::gen::mapping::Item::Method(m) = it {
                if let Some((s, e)) = m.range {
                    lines.extend([s, e, s.wrapping_sub(1), e.wrapping_add(1)]);
                }
            }
        }
    }
    lines.sort();
    lines.dedup();
    let pool = name_pool_for(&case.file, &u);
    let texts: Vec<String> = sample_n(&trace::text_trace(&pool, 8), case.key ^ 0xc12, 2).into_iter().map(|t| t.render()).collect();
    let typed = sample_n(&trace::trace(&pool, 4, 2), case.key ^ 0xc13, 2);
    let mut sigs: Vec<String> = sample_n(&crate::gen::descriptor::desc(&u.known_classes), case.key ^ 0xc14, 3).into_iter().map(|d| d.encode()).collect();
    if case.key % 32 == 0 {
        sigs.extend(super::c13::limit_sigs());
    }
    Queries { u, lines, texts, typed, sigs }
}

fn inside(s: &str, buf: &[u8], extra: &[&str]) -> bool {
    if s.is_empty() {
        return true;
    }
    let p = s.as_ptr() as usize;
    let within = |base: usize, len: usize| p >= base && p + s.len() <= base + len;
    within(buf.as_ptr() as usize, buf.len()) || extra.iter().any(|q| within(q.as_ptr() as usize, q.len()))
}

/// Run the whole query set on a parsed (possibly corrupted) cache. Returns how many class lookups succeeded.
pub fn exercise(cache: &cur::C, buf: &[u8], q: &Queries, st: &mut Stats) -> Result<usize, Fail> {
    let mut reached = 0;
    let outside = |what: String| Fail::new("string-outside-buffer", what);
    for (c, _) in q.u.all_classes() {
        st.evaluations += 1;
        if let Some(o) = cache.class(c) {
            reached += 1;
            if !inside(o, buf, &[c]) {
                return Err(outside(format!("remap_class({c:?}) returned a string outside the buffer and the query")));
            }
        }
        if let Some((o, m)) = cache.throwable(c, Some("m")) {
            if !inside(o, buf, &[c]) || !m.map_or(true, |m| m == "m") {
                return Err(outside(format!("remap_throwable({c:?}) returned a string outside the buffer and the query")));
            }
        }
    }
    for c in &q.u.known_classes {
        for (m, _) in q.u.all_methods() {
            st.evaluations += 1;
            if let Some((a, b)) = cache.method(c, m) {
                if !inside(a, buf, &[c, m]) || !inside(b, buf, &[c, m]) {
                    return Err(outside(format!("remap_method({c:?},{m:?}) returned a string outside the buffer and the query")));
                }
            }
        }
        for m in &q.u.known_methods {
            for &l in &q.lines {
                st.evaluations += 1;
                let file = "Q.java";
                for f in cache.frame_line(c, m, l, Some(file)) {
                    for s in [Some(f.class), Some(f.method), f.file].into_iter().flatten() {
                        if !inside(s, buf, &[c, m, file]) {
                            return Err(outside(format!("remap_frame({c:?},{m:?},{l}) returned {s:?} outside the buffer and the query")));
                        }
                    }
                }
            }
            for p in &q.u.params {
                st.evaluations += 1;
                for f in cache.frame_params(c, m, p) {
                    for s in [Some(f.class), Some(f.method), f.file, f.params].into_iter().flatten() {
                        if !inside(s, buf, &[c, m, p]) {
                            return Err(outside(format!("remap_frame({c:?},{m:?},params {p:?}) returned {s:?} outside the buffer and the query")));
                        }
                    }
                }
            }
        }
    }
    for t in &q.texts {
        st.evaluations += 1;
        let _ = cache.text(t);
    }
    for t in &q.typed {
        st.evaluations += 1;
        let _ = cache.typed(t);
    }
    for s in &q.sigs {
        st.evaluations += 1;
        let _ = cache.sig(s);
    }
    Ok(reached)
}

/// Hash of the *contents* of all answers to a reduced query set (addresses do not enter).
fn answers_hash(cache: &cur::C, q: &Queries) -> u64 {
    let mut h = 0xcbf29ce484222325u64;
    let mut add = |s: &str| {
        h = crate::engine::fnv_mix(h, s.as_bytes());
        h = crate::engine::fnv_mix(h, &[0xfe]);
    };
    for (c, _) in q.u.all_classes() {
        add(cache.class(c).unwrap_or("\u{1}none"));
    }
    for c in &q.u.known_classes {
        for (m, _) in q.u.all_methods() {
            match cache.method(c, m) {
                Some((a, b)) => {
                    add(a);
                    add(b);
                }
                None => add("\u{1}none"),
            }
        }
        for m in &q.u.known_methods {
            for &l in q.lines.iter().take(12) {
                for f in cache.frame_line(c, m, l, None) {
                    add(f.class);
                    add(f.method);
                    add(f.file.unwrap_or("\u{1}nofile"));
                    add(&f.line.to_string());
                }
                add("\u{2}");
            }
            for p in &q.u.params {
                for f in cache.frame_params(c, m, p) {
                    add(f.class);
                    add(f.method);
                }
                add("\u{3}");
            }
        }
    }
    for s in q.sigs.iter().take(8) {
        match cache.sig(s) {
            Some(o) => add(&o.formatted),
            None => add("\u{1}none"),
        }
    }
    // keys that continue a known name by exactly the byte a placement puts behind the buffer: if a stored name is read
    // one byte too far, these are the keys whose comparison changes
    for f in PLACEMENT_FILLERS {
        if *f >= 0x80 {
            continue;
        }
        let ext = |n: &str| format!("{n}{}", *f as char);
        for c in &q.u.known_classes {
            let ce = ext(c);
            add(cache.class(&ce).unwrap_or("\u{1}none"));
            for m in q.u.known_methods.iter().take(6) {
                let me = ext(m);
                match cache.method(c, &me) {
                    Some((a, b)) => {
                        add(a);
                        add(b);
                    }
                    None => add("\u{1}none"),
                }
                for fr in cache.frame_line(c, &me, q.lines.get(3).copied().unwrap_or(1), None) {
                    add(fr.method);
                }
                for p in q.u.params.iter().take(6) {
                    let pe = ext(p);
                    for fr in cache.frame_params(c, m, &pe) {
                        add(fr.method);
                    }
                    add("\u{4}");
                }
            }
        }
    }
    h
}

pub const PLACEMENT_FILLERS: &[u8] = &[0x00, 0xff, b'a', b'z', 0x7f];

/// "Never reads outside the buffer", made observable without a sanitizer: the same bytes are placed inside a larger
/// allocation twice, surrounded by different filler bytes; parse verdict and every answer must be identical. A read
/// beyond either end of the slice that influences an answer (a comparison, a length, a decoded prefix) shows up as a
/// difference between the two placements.
fn check_placement(bytes: &[u8], q: &Queries, label: &str, st: &mut Stats) -> Check {
    let mut seen: Option<(bool, u64, u8)> = None;
    for &filler in PLACEMENT_FILLERS {
        let mut big = AlignedBuf::new(&vec![filler; bytes.len() + 64]);
        big.bytes_mut()[32..32 + bytes.len()].copy_from_slice(bytes);
        let slice = &big.bytes()[32..32 + bytes.len()];
        st.evaluations += 1;
        let r = guarded(|| match proguard::ProguardCache::parse(slice) {
            Ok(c) => (true, answers_hash(&cur::C(c), q)),
            Err(_) => (false, 0),
        })
        .map_err(|p| Fail::new("query-panic", format!("query on a corrupted buffer ({label}) surrounded by {filler:#04x} bytes: {p}")))?;
        match seen {
            None => seen = Some((r.0, r.1, filler)),
            Some((ok, h, f0)) => {
                if (ok, h) != r {
                    return Err(Fail::new(
                        "reads-outside-buffer",
                        format!("the same {}-byte buffer ({label}) gives different results depending on the bytes around it: surrounded by {f0:#04x}: parsed={ok} answers={h:#x}; surrounded by {filler:#04x}: parsed={} answers={:#x}", bytes.len(), r.0, r.1),
                    ));
                }
            }
        }
    }
    st.class("placement check: same buffer inside five differently filled allocations");
    Ok(())
}

/// "For every byte buffer": also one that does not start at a multiple of 8 (a slice into a larger read, a packed
/// container). The same bytes are offered at every address k mod 8, k = 1..7; whatever the verdict (watto needs
/// 4-byte alignment for the header, 8 for nothing), parse must return and, if it accepts, the queries must too.
pub fn check_addresses(images: &[(&str, &[u8])], q: &Queries, st: &mut Stats) -> Check {
    for (what, bytes) in images {
        let mut big = AlignedBuf::new(&vec![0xa5u8; bytes.len() + 16]);
        for k in 1..8usize {
            big.bytes_mut()[k..k + bytes.len()].copy_from_slice(bytes);
            let slice = &big.bytes()[k..k + bytes.len()];
            st.evaluations += 1;
            let accepted = guarded(|| match proguard::ProguardCache::parse(slice) {
                Ok(c) => {
                    let _ = answers_hash(&cur::C(c), q);
                    true
                }
                Err(_) => false,
            })
            .map_err(|p| Fail::new("parse-panic", format!("{what} ({} bytes) offered at an address = {k} mod 8: {p}", bytes.len())).with(json!({"address_mod_8": k, "what": what})))?;
            if accepted {
                st.class("buffer at an address that is not a multiple of 8 accepted and queried");
            }
        }
    }
    st.class("every image offered at addresses 1..7 mod 8");
    Ok(())
}

pub fn check_buffer(buf: &AlignedBuf, q: &Queries, label: &str, case_hash: u64, st: &mut Stats) -> Check {
    let parsed = guarded(|| proguard::ProguardCache::parse(buf.bytes())).map_err(|p| Fail::new("parse-panic", format!("parse panicked on a corrupted buffer ({label}): {p}")))?;
    match parsed {
        Err(_) => {
            st.class("corrupted buffer rejected by parse");
            Ok(())
        }
        Ok(c) => {
            let c = cur::C(c);
            let r = guarded(|| exercise(&c, buf.bytes(), q, st)).map_err(|p| Fail::new("query-panic", format!("query on an accepted corrupted buffer ({label}): {p}")).with(json!({"panic": p})))?;
            let reached = r?;
            check_placement(buf.bytes(), q, label, st)?;
            if reached > 0 {
                st.nontrivial(case_hash);
                st.class("corrupted buffer accepted and reached by >=1 class lookup");
            } else {
                st.class("corrupted buffer accepted, no class lookup succeeds");
            }
            Ok(())
        }
    }
}

pub fn check_case(c: &CorruptCase, st: &mut Stats) -> Check {
    let bytes = c.map.bytes();
    let valid = write_cache(&bytes)?;
    let h = layout::read_header(valid.bytes()).ok_or_else(|| Fail::new("layout-decode", "short file"))?;
    let q = queries_for(&c.map);
    let mut buf = AlignedBuf::new(valid.bytes());
    let mut labels = Vec::new();
    for co in &c.corr {
        let l = apply(buf.bytes_mut(), &h, co);
        st.class(&format!("operator: {l}"));
        labels.push(l);
    }
    if let Some(Corr::SetField { section: 2, field, value: ValSel::Zero, .. }) = c.corr.first() {
        if *field % 9 == 2 {
            st.class("member endline set to 0 (original range may be present)");
        }
    }
    if st.want_sample() && h.num_members >= 2 {
        st.sample(|| json!({"mapping": crate::engine::show_bytes(&bytes), "corruptions": c.corr, "cache_len": valid.len()}));
    }
    {
        let v = valid.bytes();
        let zeros = [0u8; 48];
        check_addresses(&[("valid cache", v), ("corrupted cache", buf.bytes()), ("header-only prefix", &v[..v.len().min(24)]), ("40-byte prefix", &v[..v.len().min(40)]), ("23-byte prefix", &v[..v.len().min(23)]), ("zero bytes", &zeros[..]), ("empty buffer", &[][..])], &q, st)?;
    }
    // a string that claims to end just behind the end of the buffer: the file is cut right after one of its strings
    // (which thereby becomes the last one) and that string's length prefix is raised by 1 and by 2
    if c.corr.len() == 1 {
        let (_, _, _, s_at, _) = layout::offsets(&h);
        if let Ok(tab) = layout::string_table(&valid.bytes()[s_at..s_at + h.string_bytes as usize]) {
            let entries: Vec<(u32, usize)> = tab.iter().map(|(k, v)| (*k, v.len())).collect();
            let n = entries.len();
            for pick in 0..n.min(3) {
                let (off, len) = entries[(c.map.key as usize + pick * (n / 3 + 1)) % n];
                if len == 0 || len >= 126 {
                    continue;
                }
                let cut = s_at + off as usize + 1 + len;
                for bump in [1u8, 2] {
                    let mut hb = h;
                    hb.string_bytes = (cut - s_at) as u32;
                    let mut short = AlignedBuf::new(&valid.bytes()[..cut]);
                    for (i, v) in [hb.magic, hb.version, hb.num_classes, hb.num_members, hb.num_members_by_params, hb.string_bytes].iter().enumerate() {
                        short.bytes_mut()[i * 4..i * 4 + 4].copy_from_slice(&v.to_le_bytes());
                    }
                    short.bytes_mut()[s_at + off as usize] = len as u8 + bump;
                    st.class("operator: last string claims to end behind the buffer");
                    check_buffer(&short, &q, "string-overrun", fnv64(short.bytes()), st).map_err(|f| f.with(json!({"buffer_hex": hex(short.bytes())})))?;
                }
            }
        }
    }
    let hsh = fnv64(buf.bytes());
    check_buffer(&buf, &q, &labels.join("+"), hsh, st).map_err(|mut f| {
        if let Value::Object(o) = &mut f.detail {
            o.insert("buffer_hex".into(), Value::String(hex(buf.bytes())));
        } else {
            f.detail = json!({"buffer_hex": hex(buf.bytes())});
        }
        f
    })
}

/// thorough: every (field, value) edit of small files
pub fn check_exhaustive(case: &MapCase, st: &mut Stats) -> Check {
    let bytes = case.bytes();
    let valid = write_cache(&bytes)?;
    if valid.len() >= 600 {
        return Ok(());
    }
    st.class("small file: all (field, value) edits enumerated");
    let h = layout::read_header(valid.bytes()).ok_or_else(|| Fail::new("layout-decode", "short file"))?;
    let q = queries_for(case);
    let values = [
        ValSel::Zero, ValSel::One, ValSel::Two, ValSel::CountMinus1(0), ValSel::Count(0), ValSel::CountMinus1(1), ValSel::Count(1), ValSel::CountMinus1(2), ValSel::Count(2),
        ValSel::CountMinus1(3), ValSel::Count(3), ValSel::P31, ValSel::MaxMinus1, ValSel::Max, ValSel::Small(5), ValSel::Inc, ValSel::Dec,
    ];
    let sections = [(1u8, h.num_classes as usize, 7u8), (2, h.num_members as usize, 9), (3, h.num_members_by_params as usize, 9)];
    for (s, n, nf) in sections {
        for r in 0..n {
            for f in 0..nf {
                for v in &values {
                    let mut buf = AlignedBuf::new(valid.bytes());
                    let rec = (((r << 16) + (1 << 15)) / n.max(1)) as u16;
                    let co = Corr::SetField { section: s, rec, field: f, value: v.clone() };
                    apply(buf.bytes_mut(), &h, &co);
                    let hsh = fnv64(buf.bytes());
                    check_buffer(&buf, &q, "set-field", hsh, st).map_err(|f| f.with(json!({"corruption": co, "buffer_hex": hex(buf.bytes())})))?;
                }
            }
        }
    }
    Ok(())
}

/// Corruption of a cache with thousands of classes (fast paths that only exist above a size threshold):
/// class records swapped / duplicated / name offsets redirected, then many class lookups whose binary-search paths
/// cross the damaged records.
#[derive(Clone, Debug, Serialize, Deserialize)]
pub struct WideCorrupt {
    pub n: usize,
    pub corr: Vec<Corr>,
    pub probes: Vec<u16>,
}

pub fn wide_corrupt_case() -> BoxedStrategy<WideCorrupt> {
    let c = prop_oneof![
        4 => (any::<u16>(), any::<u16>()).prop_map(|(a, b)| Corr::SwapRecs { section: 1, a, b }),
        3 => (any::<u16>(), any::<u16>()).prop_map(|(from, to)| Corr::DupRec { section: 1, from, to }),
        4 => (any::<u16>(), 0u8..3, valsel()).prop_map(|(rec, field, value)| Corr::SetField { section: 1, rec, field, value }),
        1 => corr(),
    ];
    (proptest::sample::select(&[4096usize, 4097, 5000][..]), vec(c, 1..4), vec(any::<u16>(), 30..120)).prop_map(|(n, corr, probes)| WideCorrupt { n, corr, probes }).boxed()
}

pub fn check_wide(c: &WideCorrupt, st: &mut Stats) -> Check {
    // class names share long prefixes and have very different lengths
    let mut text = String::new();
    for i in 0..c.n {
        let name = match i % 4 {
            0 => format!("com.example.pkg.deep.C{i}"),
            1 => format!("com.example.pkg.deep.C{i}$Inner$1"),
            2 => format!("c{i}"),
            _ => format!("com.example.pkg.d{}", "x".repeat(i % 40)),
        };
        text.push_str(&format!("orig.O{i} -> {name}{}:\n    void m() -> a\n", if i % 4 == 3 { format!("{i}") } else { String::new() }));
    }
    let valid = write_cache(text.as_bytes())?;
    let h = layout::read_header(valid.bytes()).ok_or_else(|| Fail::new("layout-decode", "short file"))?;
    let mut buf = AlignedBuf::new(valid.bytes());
    for co in &c.corr {
        let l = apply(buf.bytes_mut(), &h, co);
        st.class(&format!("wide operator: {l}"));
    }
    let names: Vec<String> = c
        .probes
        .iter()
        .map(|p| {
            let i = ((*p as usize) * c.n) >> 16;
            match i % 4 {
                0 => format!("com.example.pkg.deep.C{i}"),
                1 => format!("com.example.pkg.deep.C{i}$Inner$1"),
                2 => format!("c{i}"),
                _ => format!("com.example.pkg.d{}{i}", "x".repeat(i % 40)),
            }
        })
        .chain(["".to_string(), "c".to_string(), "com.example.pkg.deep.C".to_string(), "zzzz".to_string(), "com.example.pkg.d".to_string()])
        .collect();
    let parsed = guarded(|| proguard::ProguardCache::parse(buf.bytes())).map_err(|p| Fail::new("parse-panic", p))?;
    let Ok(cache) = parsed else {
        st.class("corrupted buffer rejected by parse");
        return Ok(());
    };
    let cache = cur::C(cache);
    let mut reached = 0;
    guarded(|| {
        for n in &names {
            if cache.class(n).is_some() {
                reached += 1;
            }
            let _ = cache.method(n, "a");
            let _ = cache.frame_line(n, "a", 1, None);
            let _ = cache.frame_params(n, "a", "");
            let _ = cache.throwable(n, None);
        }
        let _ = cache.text("a.b: c\n    at c5.a(F:1)\n");
        let _ = cache.sig("(Lc5;)Lcom/example/pkg/deep/C4;");
    })
    .map_err(|p| Fail::new("query-panic", format!("query on a corrupted cache with {} classes: {p}", c.n)).with(json!({"panic": p})))?;
    st.evaluations += names.len() as u64 * 5;
    if reached > 0 {
        st.nontrivial(fnv64(buf.bytes()));
    }
    Ok(())
}

pub fn check_hex(hexbuf: &str, case: &MapCase) -> Check {
    let buf = AlignedBuf::new(&crate::engine::unhex(hexbuf));
    let q = queries_for(case);
    let mut st = Stats::new();
    check_buffer(&buf, &q, "replay", 0, &mut st)
}

pub fn run(ctx: &Ctx) -> Report {
    let mut rep = Report::new(ID, "exploration", ctx);
    rep.rule = "Cases: valid caches written from generated mappings x 1..3 corruption operators: set any 32-bit field of any class / member / by-params record or of the header to {0,1,2,count-1,count,count+1 (for each of the four header counts),2^31,2^32-2,2^32-1,small,old+-1}; swap / duplicate records; 1..7 random bit flips; corrupt a string's LEB128 prefix (0, unterminated, huge, +1, u64::MAX, 2^63, u32::MAX, 2^32) or its UTF-8; random bytes behind a valid header; zeroed string tail. Thorough adds, for files < 600 bytes, every (field, value) edit. Queries: the uncorrupted file's names plus unknowns; lines {0,1,2, all range boundaries +-1, 2^31, 2^32-2..2^32, 2^64-2, 2^64-1}; params; throwables; text and typed traces; signatures. Oracle: parse returns without panic; on Ok every query returns without panic (overflow checks on) and every returned &str is empty or lies inside the buffer's address range or inside one of the query's strings. ProguardCache::test()/display()/debug_* are excluded (assertion / pretty-printing helpers). evaluations = queries issued on accepted corrupted buffers. Non-trivial = distinct corrupted buffers that parse and for which >=1 class lookup succeeds.".into();
    rep.assumptions = vec!["buffers are 8-byte aligned".into(), "harness built with overflow-checks=on so arithmetic overflow is observable as a panic".into()];
    rep.run_stage("corrupt", corrupt_case, ctx.cases(150_000, 9_000_000), check_case);
    {
        let thorough = ctx.tier == crate::engine::Tier::Thorough;
        let mut dst = Stats::new();
        dst.cases += 1;
        if let Err(f) = super::c13::check_deep(thorough, &mut dst) {
            rep.fail("deep", json!({"thorough": thorough}), f);
        }
        rep.stats.merge(dst);
    }
    rep.run_stage("tall", tall_corrupt_case, ctx.cases(300, 12_000), check_case);
    rep.run_stage("wide", wide_corrupt_case, ctx.cases(400, 12_000), check_wide);
    if ctx.tier == crate::engine::Tier::Thorough {
        let small = GenCfg { max_blocks: 2, max_items: 3, long: 0, fresh: 0, ..cfg() };
        rep.run_stage("exhaustive-fields", move || map_case(&small), ctx.cases(1, 900), check_exhaustive);
        rep.stats.exhaustive.push("for generated files < 600 bytes: every (record, field, value) edit".into());
    }
    rep
}

pub fn replay(stage: &str, case: &Value) -> Check {
    let mut st = Stats::new();
    let de = |e: serde_json::Error| Fail::new("harness-replay", e.to_string());
    match stage {
        "deep" => super::c13::check_deep(case["thorough"].as_bool().unwrap_or(false), &mut st),
        "wide" => check_wide(&serde_json::from_value(case.clone()).map_err(de)?, &mut st),
        "corrupt" | "tall" => check_case(&serde_json::from_value(case.clone()).map_err(de)?, &mut st),
        "exhaustive-fields" => check_exhaustive(&serde_json::from_value(case.clone()).map_err(de)?, &mut st),
        _ => Err(Fail::new("harness-replay", format!("unknown stage {stage}"))),
    }
}

//! Stack-trace generators: typed ASTs (the C17 domain) and decorated text.

use crate::api::{FrameAst, ThrowableAst, TraceAst};
use crate::gen::mapping::ident;
use proptest::collection::vec;
use proptest::prelude::*;
use proptest::sample::select;

pub const MESSAGES: &[&str] = &[
    "Crash!",
    "a: b",
    ": ",
    "Caused by: x",
    "at a.b(c:1)",
    "x)",
    "Überlauf é 漢",
    "java.lang.Error: nested: deep",
    "with  two  spaces",
    "(",
    "...",
    "expected one of:",
    "a: b:",
    ":",
    "x::",
    ": leading",
];

/// Message tokens: the parser's own delimiters in every position (incl. trailing ':' and ')').
pub const MSG_TOKENS: &[&str] = &["x", "é", "Crash", ": ", ":", " ", "at ", "(", ")", "Caused by: ", ".", "...", "a.b(c:1)", "::", "\t", "-", "1"];

/// Generated message: non-empty, no surrounding whitespace, single line (the C17 domain), built from delimiter tokens.
pub fn message() -> BoxedStrategy<String> {
    vec(select(MSG_TOKENS), 1..6)
        .prop_map(|v| {
            let s: String = v.concat();
            let t = s.trim();
            if t.is_empty() {
                "m".to_string()
            } else {
                t.to_string()
            }
        })
        .boxed()
}

pub const FILES: &[&str] = &["SourceFile", "Foo.java", "a(b)", "<unknown>", "", "Native Method", "ü.kt", "R8$$SyntheticClass"];

pub const LINES: &[u64] = &[
    0, 1, 2, 5, 13, 42, 66, 255, 256, 65535, 65536, 2147483647, 2147483648, 4294967294, 4294967295, 4294967296, 9007199254740991, 9007199254740992, 9007199254740993,
    9223372036854775806, 9223372036854775807, 9223372036854775808, 9223372036854775809, u64::MAX - 1, u64::MAX,
];

/// identifier for trace elements: like the mapping identifier, but without whitespace / control characters
/// (outside the printable-trace domain; keeping them would make most generated traces fall out of the domain)
pub fn tident() -> BoxedStrategy<String> {
    ident().prop_map(|s| s.chars().map(|c| if c.is_whitespace() || c.is_control() { 'w' } else { c }).collect()).boxed()
}

/// Names a trace draws from: the mapping's own names so that lookups resolve often.
#[derive(Clone, Debug, Default)]
pub struct NamePool {
    pub classes: Vec<String>,
    pub methods: Vec<String>,
    pub lines: Vec<u64>,
    /// (class, method, line) triples that are known to resolve in the mapping under test
    pub hits: Vec<(String, String, u64)>,
}

impl NamePool {
    pub fn classes_or_default(&self) -> Vec<String> {
        let mut v: Vec<String> = self.classes.iter().filter(|c| class_ok(c)).cloned().collect();
        for d in ["java.lang.RuntimeException", "zz.Unknown", "at", "Caused", "a.b.C$1"] {
            v.push(d.to_string());
        }
        v
    }
    pub fn methods_or_default(&self) -> Vec<String> {
        let mut v: Vec<String> = self.methods.iter().filter(|m| method_ok(m)).cloned().collect();
        for d in ["run", "<init>", "lambda$0", "a"] {
            v.push(d.to_string());
        }
        v
    }
}

/// throwable class in the C17 domain: non-empty, no whitespace (incl. unicode whitespace at the ends), no ": "
pub fn class_ok(c: &str) -> bool {
    !c.is_empty() && !c.chars().any(|ch| ch.is_whitespace()) && !c.contains(": ") && c.len() < 300
}

/// frame class: as above, plus no '(' (the printed frame is split at the first '(')
pub fn frame_class_ok(c: &str) -> bool {
    class_ok(c) && !c.contains('(')
}

pub fn method_ok(m: &str) -> bool {
    !m.is_empty() && !m.contains('.') && !m.contains('(') && !m.chars().any(|ch| ch.is_whitespace()) && m.len() < 300
}

pub fn throwable(pool: &NamePool) -> BoxedStrategy<ThrowableAst> {
    let classes = pool.classes_or_default();
    (
        prop_oneof![8 => select(classes), 1 => tident()],
        prop_oneof![
            3 => Just(None),
            4 => select(MESSAGES).prop_map(|m| Some(m.to_string())),
            3 => message().prop_map(Some),
            1 => tident().prop_map(Some),
        ],
    )
        .prop_map(|(class, message)| ThrowableAst { class, message })
        .boxed()
}

pub fn frame(pool: &NamePool) -> BoxedStrategy<FrameAst> {
    let classes: Vec<String> = pool.classes_or_default().into_iter().filter(|c| frame_class_ok(c)).collect();
    let methods = pool.methods_or_default();
    let mut lines: Vec<u64> = LINES.to_vec();
    lines.extend(pool.lines.iter().copied().take(40));
    let free = (
        prop_oneof![8 => select(classes), 1 => tident()],
        prop_oneof![8 => select(methods), 1 => tident()],
        prop_oneof![3 => select(lines), 2 => 0u64..70, 1 => any::<u64>()],
        select(FILES),
    )
        .prop_map(|(class, method, line, file)| FrameAst { class, method, line, file: Some(file.to_string()), params: None });
    let hits: Vec<(String, String, u64)> = pool.hits.iter().filter(|(c, m, _)| frame_class_ok(c) && method_ok(m)).cloned().collect();
    if hits.is_empty() {
        free.boxed()
    } else {
        prop_oneof![
            5 => free,
            5 => (select(hits), select(FILES), 0u64..3).prop_map(|((class, method, line), file, d)| FrameAst { class, method, line: line + d, file: Some(file.to_string()), params: None }),
        ]
        .boxed()
    }
}

/// Typed traces of the C17 domain: the top level has a throwable or at least one frame; causes always carry
/// a throwable.
pub fn trace(pool: &NamePool, max_frames: usize, max_depth: usize) -> BoxedStrategy<TraceAst> {
    let level = (throwable(pool), vec(frame(pool), 0..=max_frames), 0u8..100);
    (
        prop::option::weighted(0.85, throwable(pool)),
        vec(frame(pool), 0..=max_frames),
        vec(level, 0..=max_depth),
        frame(pool),
    )
        .prop_map(|(exc, mut frames, causes, spare)| {
            if exc.is_none() && frames.is_empty() {
                frames.push(spare);
            }
            // levels are not independent in real traces: a cause often repeats its parent's throwable and/or shares
            // its bottom frames with it ("... n more"); make such coincidences common
            let mut levels: Vec<(ThrowableAst, Vec<FrameAst>)> = Vec::new();
            let mut parent: (Option<ThrowableAst>, Vec<FrameAst>) = (exc.clone(), frames.clone());
            for (t, fr, dice) in causes {
                let (mut t, mut fr) = (t, fr);
                if dice < 8 {
                    // identical to the parent level
                    if let Some(pt) = &parent.0 {
                        t = pt.clone();
                    }
                    fr = parent.1.clone();
                } else if dice < 22 {
                    // shares the parent's last frame(s)
                    let k = (dice as usize % 2) + 1;
                    let tail: Vec<FrameAst> = parent.1.iter().rev().take(k).rev().cloned().collect();
                    fr.extend(tail);
                } else if dice < 28 {
                    if let Some(pt) = &parent.0 {
                        t = pt.clone();
                    }
                }
                parent = (Some(t.clone()), fr.clone());
                levels.push((t, fr));
            }
            // a wrapper created by `new X(cause)` carries the cause's toString() as its message: the free-text
            // message of one level then equals the (obfuscated) throwable of the next
            let mut exc = exc;
            let n_levels = levels.len();
            for i in (0..n_levels).rev() {
                let child_text = levels[i].0.print();
                let child_class = levels[i].0.class.clone();
                let d = (levels[i].1.len() * 7 + child_class.len() * 3 + i) % 10;
                let wrapper: Option<&mut ThrowableAst> = if i == 0 { exc.as_mut() } else { Some(&mut levels[i - 1].0) };
                if let Some(w) = wrapper {
                    match d {
                        0 => w.message = Some(child_text),
                        1 => w.message = Some(child_class),
                        _ => {}
                    }
                }
            }
            let mut cause: Option<Box<TraceAst>> = None;
            for (t, fr) in levels.into_iter().rev() {
                cause = Some(Box::new(TraceAst { exception: Some(t), frames: fr, cause }));
            }
            TraceAst { exception: exc, frames, cause }
        })
        .boxed()
}

// ---------------------------------------------------------------------------------------------
// decorated text

#[derive(Clone, Debug, serde::Serialize, serde::Deserialize, PartialEq, Eq)]
pub enum TextLine {
    Throwable(ThrowableAst),
    Cause(ThrowableAst),
    /// indent, frame
    Frame(String, FrameAst),
    Raw(String),
    /// indented `Caused by: …` line (the prefix is only recognised at the very start of a line: passes through)
    IndentedCause(String, ThrowableAst),
    /// invisible non-whitespace character (BOM, zero-width space, soft hyphen) in front of the class:
    /// the class is then a different, unknown one (prefix, throwable, is_cause)
    Invisible(String, ThrowableAst, bool),
    /// a throwable behind a prefix that is NOT the exact, unindented `Caused by: ` (Suppressed:, lower-case variants,
    /// logcat tags, thread headers …): passes through
    Prefixed(String, ThrowableAst),
}

pub const OTHER_PREFIXES: &[&str] = &[
    "Suppressed: ", "\tSuppressed: ", "    Suppressed: ", "caused by: ", "Caused By: ", "Caused by:", "CAUSED BY: ", "Caused by : ", "Exception in thread \"main\" ", "FATAL EXCEPTION: ", "E/AndroidRuntime: ", "Wrapped by: ", "... ",
];

pub const INVISIBLE: &[&str] = &["\u{feff}", "\u{200b}", "\u{2060}", "\u{ad}"];

pub const RAW_LINES: &[&str] = &[
    "    ... 13 more",
    "\t... 1 more",
    "    at some.Klass.method(Native Method)",
    "    at some.Klass.method(Unknown Source)",
    "    at some.Klass.noParens",
    "",
    "   ",
    "Suppressed: java.io.IOException: x",
    "Caused by:",
    "Caused by: ",
    "Caused by:  two.Spaces",
    "Caused by: with space Exception: m",
    "  Caused by: indented.Cause: m",
    "at",
    "at ",
    "at )",
    "at a()",
    "at a.b()",
    "at a.b(:)",
    "at a.b(c:x)",
    "at a.b(c:-1)",
    "at a.b(c:1))",
    "    at .m(F:1)",
    "    at a.(F:1)",
    "日本語のテキスト 漢字",
    "E/AndroidRuntime: FATAL EXCEPTION: main",
    "\u{a0}at a.b(c:1)",
    "a: b: c",
];

pub const INDENTS: &[&str] = &["    ", "\t", "  \t ", "", " ", "        "];

pub fn text_lines(pool: &NamePool, max: usize) -> BoxedStrategy<Vec<TextLine>> {
    let line = prop_oneof![
        3 => throwable(pool).prop_map(TextLine::Throwable),
        3 => throwable(pool).prop_map(TextLine::Cause),
        10 => (select(INDENTS), frame(pool)).prop_map(|(i, f)| TextLine::Frame(i.to_string(), f)),
        4 => select(RAW_LINES).prop_map(|s| TextLine::Raw(s.to_string())),
        1 => "\\PC{0,12}".prop_map(TextLine::Raw),
        2 => (select(&["\t", "    ", " ", "\t\t", "  \t"][..]), throwable(pool)).prop_map(|(i, t)| TextLine::IndentedCause(i.to_string(), t)),
        2 => (select(INVISIBLE), throwable(pool), any::<bool>()).prop_map(|(p, t, c)| TextLine::Invisible(p.to_string(), t, c)),
        3 => (select(OTHER_PREFIXES), throwable(pool)).prop_map(|(p, t)| TextLine::Prefixed(p.to_string(), t)),
    ];
    // lines of a text are not independent either: the same frame repeated (recursion), and repeated in another
    // spelling (indent, trailing blanks, a sign or leading zero in the line number) that parses to the same frame
    (vec((line, 0u8..100), 0..=max))
        .prop_map(|ls| {
            let mut out = Vec::new();
            for (l, dice) in ls {
                out.push(l.clone());
                if let TextLine::Frame(indent, f) = &l {
                    let other_indent = INDENTS[(dice as usize) % INDENTS.len()].to_string();
                    match dice {
                        0..=5 => out.push(l.clone()),
                        6..=11 => out.push(TextLine::Frame(other_indent, f.clone())),
                        12..=15 => out.push(TextLine::Raw(format!("{indent}{} ", f.print()))),
                        16..=18 => out.push(TextLine::Raw(format!("{other_indent}{}\t", f.print()))),
                        19..=21 => out.push(TextLine::Raw(format!("{indent}at {}.{}({}:+{})", f.class, f.method, f.file.as_deref().unwrap_or("<unknown>"), f.line))),
                        22..=24 => out.push(TextLine::Raw(format!("{indent}at {}.{}({}:0{})", f.class, f.method, f.file.as_deref().unwrap_or("<unknown>"), f.line))),
                        25..=26 => out.push(TextLine::Raw(format!("{indent}at  {}.{}({}:{})", f.class, f.method, f.file.as_deref().unwrap_or("<unknown>"), f.line))),
                        // near misses of the frame shape built from the same (often resolving) frame: which of them
                        // are frames is decided by the harness's own recogniser (model::traceparse)
                        27..=50 => {
                            let (c, m, fl, n) = (&f.class, &f.method, f.file.as_deref().unwrap_or("<unknown>"), f.line);
                            out.push(TextLine::Raw(match dice {
                                27 | 28 => format!("{indent}at {c}.{m}(jar:file:{fl}:{n})"),
                                29 | 30 => format!("{indent}at {c}.{m}({fl}:{n}:{n})"),
                                31 => format!("{indent}at {c}.{m}(:{fl}:{n})"),
                                32 => format!("{indent}at {c}.{m}(::{n})"),
                                33 | 34 => format!("{indent}at {c}.{m}({fl}:{n}) ~[lib-1.0.jar:1.0]"),
                                35 => format!("{indent}at {c}.{m}({fl}:{n}) [app.jar:na]"),
                                36 => format!("{indent}at {c}.{m}({fl}:{n}))"),
                                37 => format!("{indent}at {c}.{m}(({fl}:{n})"),
                                38 => format!("{indent}at {c}.{m}({fl}:{n})\u{a0}"),
                                39 => format!("\u{feff}at {c}.{m}({fl}:{n})"),
                                40 => format!("{indent}At {c}.{m}({fl}:{n})"),
                                41 => format!("{indent}at\t{c}.{m}({fl}:{n})"),
                                42 => format!("{indent}at {c}.{m}({fl}: {n})"),
                                43 => format!("{indent}at {c}.{m}({fl}:{n} )"),
                                44 => format!("{indent}at {c}.{m}(Util(1).java:{n})"),
                                45 => format!("{indent}at {c}.{m}(D (copy).kt:{n})"),
                                46 => format!("{indent}at {c}.{m}({fl}:{n}) // note"),
                                47 => format!("{indent}at app//{c}.{m}({fl}:{n})"),
                                48 => format!("{indent}at {c}.{m}({fl}:{n}:)"),
                                49 => format!("{indent}at {c}.{m}({fl}:-{n})"),
                                _ => format!("{indent}at {c}.{m}({fl};{n})"),
                            }));
                        }
                        _ => {}
                    }
                }
            }
            out
        })
        .boxed()
}

#[derive(Clone, Debug, serde::Serialize, serde::Deserialize, PartialEq, Eq)]
pub struct TextTrace {
    pub lines: Vec<TextLine>,
    /// 0 = LF, 1 = CRLF, 2 = mixed, 3 = bare CR (not a line terminator for the text API: one long line)
    pub eol: u8,
    pub final_eol: bool,
}

impl TextTrace {
    pub fn line_strings(&self) -> Vec<String> {
        self.lines
            .iter()
            .map(|l| match l {
                TextLine::Throwable(t) => t.print(),
                TextLine::Cause(t) => format!("Caused by: {}", t.print()),
                TextLine::Frame(i, f) => format!("{}{}", i, f.print()),
                TextLine::IndentedCause(i, t) => format!("{i}Caused by: {}", t.print()),
                TextLine::Invisible(p, t, true) => format!("Caused by: {p}{}", t.print()),
                TextLine::Invisible(p, t, false) => format!("{p}{}", t.print()),
                TextLine::Prefixed(p, t) => format!("{p}{}", t.print()),
                // raw lines never contain line terminators
                TextLine::Raw(s) => s.replace(['\n', '\r'], " "),
            })
            .collect()
    }
    pub fn render(&self) -> String {
        let ls = self.line_strings();
        let mut out = String::new();
        for (i, l) in ls.iter().enumerate() {
            out.push_str(l);
            if i + 1 < ls.len() || self.final_eol {
                match self.eol {
                    0 => out.push('\n'),
                    1 => out.push_str("\r\n"),
                    2 => out.push_str(if i % 2 == 0 { "\r\n" } else { "\n" }),
                    _ => out.push_str(if i % 3 == 0 { "\r" } else { "\n" }),
                }
            }
        }
        out
    }
}

pub fn text_trace(pool: &NamePool, max: usize) -> BoxedStrategy<TextTrace> {
    (text_lines(pool, max), prop_oneof![4 => Just(0u8), 2 => Just(1u8), 2 => Just(2u8), 1 => Just(3u8)], any::<bool>())
        .prop_map(|(lines, eol, final_eol)| TextTrace { lines, eol, final_eol })
        .boxed()
}


/// Deep cause chains around the 127/128/129 and 255/256 boundaries (few frames per level).
pub fn deep_trace(pool: &NamePool) -> BoxedStrategy<TraceAst> {
    let level = (throwable(pool), vec(frame(pool), 0..=2));
    (select(&[126usize, 127, 128, 129, 130, 200, 255, 256, 257, 300][..]), throwable(pool), vec(level, 300))
        .prop_map(|(depth, top, levels)| {
            let mut cause: Option<Box<TraceAst>> = None;
            for (t, fr) in levels.into_iter().take(depth).rev() {
                cause = Some(Box::new(TraceAst { exception: Some(t), frames: fr, cause }));
            }
            TraceAst { exception: Some(top), frames: vec![], cause }
        })
        .boxed()
}

/// Long traces (hundreds of frames from a tiny pool, so that (class, method, line) repeats with different files;
/// printed form well above 16 KiB).
pub fn long_trace(pool: &NamePool) -> BoxedStrategy<TraceAst> {
    (throwable(pool), vec(frame(pool), 6..=10), vec((any::<u16>(), select(FILES)), 350..1200))
        .prop_map(|(exc, pool_frames, picks)| {
            let frames = picks
                .into_iter()
                .map(|(i, file)| {
                    let mut f = pool_frames[(i as usize * pool_frames.len()) >> 16].clone();
                    f.file = Some(file.to_string());
                    f
                })
                .collect();
            TraceAst { exception: Some(exc), frames, cause: None }
        })
        .boxed()
}

/// Long decorated text: lines drawn (with repetition) from a small pool of generated lines.
pub fn long_text(pool: &NamePool) -> BoxedStrategy<TextTrace> {
    (text_lines(pool, 12), vec(any::<u16>(), 350..1500), 0u8..2, any::<bool>())
        .prop_map(|(base, picks, eol, final_eol)| {
            let lines = if base.is_empty() { vec![] } else { picks.into_iter().map(|i| base[(i as usize * base.len()) >> 16].clone()).collect() };
            TextTrace { lines, eol, final_eol }
        })
        .boxed()
}

/// Typed traces whose frames carry parameter lists (C03 through the typed API).
pub fn param_trace(pool: &NamePool, params: &[String]) -> BoxedStrategy<TraceAst> {
    let ps: Vec<String> = if params.is_empty() { vec![String::new()] } else { params.to_vec() };
    let classes: Vec<String> = pool.classes_or_default();
    let methods = pool.methods_or_default();
    let hits: Vec<(String, String, u64)> = pool.hits.clone();
    let pf = (select(classes), select(methods), select(ps.clone())).prop_map(|(class, method, p)| FrameAst { class, method, line: 0, file: None, params: Some(p) });
    let f: BoxedStrategy<FrameAst> = if hits.is_empty() {
        pf.boxed()
    } else {
        prop_oneof![
            1 => pf,
            3 => (select(hits), select(ps)).prop_map(|((class, method, _), p)| FrameAst { class, method, line: 0, file: None, params: Some(p) }),
        ]
        .boxed()
    };
    // adjacent frames often share class and method but differ in the parameter string
    (prop::option::of(throwable(pool)), vec((f, 0u8..100), 1..10))
        .prop_map(|(exc, fs)| {
            let mut frames: Vec<FrameAst> = Vec::new();
            for (mut fr, dice) in fs {
                if dice < 45 {
                    if let Some(prev) = frames.last() {
                        fr.class = prev.class.clone();
                        fr.method = prev.method.clone();
                    }
                }
                frames.push(fr);
            }
            TraceAst { exception: exc, frames, cause: None }
        })
        .boxed()
}


/// Typed traces as the *parser* can produce them: a cause level may lack its throwable (the text after
/// `Caused by: ` did not parse) and may have no frames at all — also as the last level.
pub fn parsed_like_trace(pool: &NamePool, max_frames: usize, max_depth: usize) -> BoxedStrategy<TraceAst> {
    let level = (prop::option::weighted(0.6, throwable(pool)), vec(frame(pool), 0..=max_frames), 0u8..100);
    (prop::option::weighted(0.8, throwable(pool)), vec(frame(pool), 0..=max_frames), vec(level, 1..=max_depth))
        .prop_map(|(exc, frames, causes)| {
            let mut cause: Option<Box<TraceAst>> = None;
            for (t, fr, dice) in causes.into_iter().rev() {
                let fr = if dice < 40 { vec![] } else { fr };
                cause = Some(Box::new(TraceAst { exception: t, frames: fr, cause }));
            }
            TraceAst { exception: exc, frames, cause }
        })
        .boxed()
}

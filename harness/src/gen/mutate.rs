//! Token-level mutation of mapping files, and the representable-domain predicate over parsed records.

use crate::gen::mapping::{map_file, GenCfg, MapFile};
use proptest::collection::vec;
use proptest::prelude::*;
use serde::{Deserialize, Serialize};

#[derive(Clone, Debug, Serialize, Deserialize, PartialEq, Eq)]
pub enum MutOp {
    /// replace token at (scaled) index by another token of the file
    ReplaceWithOther(u16, u16),
    /// replace token by dictionary entry
    ReplaceWithDict(u16, u16),
    InsertDict(u16, u16),
    DeleteToken(u16),
    DupToken(u16),
    SwapLines(u16, u16),
    DeleteLine(u16),
    DupLine(u16),
    MoveLine(u16, u16),
}

#[derive(Clone, Debug, Serialize, Deserialize)]
pub struct MutCase {
    pub base: MapFile,
    pub ops: Vec<MutOp>,
    pub hostile: bool,
    pub key: u64,
}

pub const DICT: &[&[u8]] = &[
    b"0", b"1", b"2", b"3", b"10", b"4294967294", b"    ", b" -> ", b":", b"(", b")", b"#", b"\n", b"\r\n", b"\r", b".", b"$", b"a", b"b",
    b"void", b" ", b",", b"# sourceFile", b"# sourceFile: Z.kt", b"# {\"id\":\"sourceFile\",\"fileName\":\"X.kt\"}", b"R8$$SyntheticClass",
    b"<init>", b"1:1:", b"5:9:", b":7", b":7:9", b"x.Y", b"\xc3\xa9",
];


pub const HOSTILE_DICT: &[&[u8]] = &[
    b"4294967295",
    b"4294967296",
    b"4294967297",
    b"18446744073709551615",
    b"18446744073709551616",
    b"9223372036854775807",
    b"9223372036854775808",
    b"99999999999999999999999999999999999999999",
    b"\xff",
    b"\xb2",
    b"\xb9\xb2\xb3",
    b"\xc3",
    b"\xf0\x9f",
    b"\"",
    b"\"}",
    b"# {\"id\":\"sourceFile\",\"fileName\":\"",
    b"# {\"id\":\"sourceFile\",\"fileName\":\"\"}",
    b"",
    b"-1",
    b"+1",
    b"\0",
    b"\t",
    b"     ",
    b"#",
    b"# sourceFile:",
    b" -> :",
    b"()",
    b".",
    b"\x0b",
    b"\x0c",
    b"\\",
    b"\xef\xbb\xbf",
    b"\xc2\xa0",
    b"\xe2\x80\xa8",
    b"\xc2\x85",
];

pub fn tokenize(b: &[u8]) -> Vec<Vec<u8>> {
    let mut out: Vec<Vec<u8>> = Vec::new();
    let is_word = |c: u8| c.is_ascii_alphanumeric() || c == b'_' || c >= 0x80;
    let mut i = 0;
    while i < b.len() {
        if is_word(b[i]) {
            let s = i;
            while i < b.len() && is_word(b[i]) {
                i += 1;
            }
            out.push(b[s..i].to_vec());
        } else if b[i] == b' ' {
            let s = i;
            while i < b.len() && b[i] == b' ' {
                i += 1;
            }
            out.push(b[s..i].to_vec());
        } else {
            out.push(vec![b[i]]);
            i += 1;
        }
    }
    out
}

fn idx(frac: u16, len: usize) -> usize {
    ((frac as usize) * len) >> 16
}

pub fn split_lines(b: &[u8]) -> Vec<Vec<u8>> {
    // keep terminators attached
    let mut out = Vec::new();
    let mut s = 0;
    for (i, c) in b.iter().enumerate() {
        if *c == b'\n' {
            out.push(b[s..=i].to_vec());
            s = i + 1;
        }
    }
    if s < b.len() {
        out.push(b[s..].to_vec());
    }
    out
}

pub fn apply(base: &[u8], ops: &[MutOp], hostile: bool) -> Vec<u8> {
    let mut cur = base.to_vec();
    let dict = |d: u16| -> &'static [u8] {
        if hostile {
            let n = DICT.len() + HOSTILE_DICT.len();
            let i = idx(d, n);
            if i < HOSTILE_DICT.len() {
                HOSTILE_DICT[i]
            } else {
                DICT[i - HOSTILE_DICT.len()]
            }
        } else {
            DICT[idx(d, DICT.len())]
        }
    };
    for op in ops {
        match op {
            MutOp::ReplaceWithOther(..) | MutOp::ReplaceWithDict(..) | MutOp::InsertDict(..) | MutOp::DeleteToken(_) | MutOp::DupToken(_) => {
                let mut toks = tokenize(&cur);
                if toks.is_empty() {
                    if let MutOp::InsertDict(_, d) = op {
                        cur = dict(*d).to_vec();
                    }
                    continue;
                }
                let n = toks.len();
                match op {
                    MutOp::ReplaceWithOther(a, b) => {
                        let t = toks[idx(*b, n)].clone();
                        toks[idx(*a, n)] = t;
                    }
                    MutOp::ReplaceWithDict(a, d) => toks[idx(*a, n)] = dict(*d).to_vec(),
                    MutOp::InsertDict(a, d) => toks.insert(idx(*a, n), dict(*d).to_vec()),
                    MutOp::DeleteToken(a) => {
                        toks.remove(idx(*a, n));
                    }
                    MutOp::DupToken(a) => {
                        let t = toks[idx(*a, n)].clone();
                        toks.insert(idx(*a, n), t);
                    }
                    _ => {}
                }
                cur = toks.concat();
            }
            MutOp::SwapLines(..) | MutOp::DeleteLine(_) | MutOp::DupLine(_) | MutOp::MoveLine(..) => {
                let mut lines = split_lines(&cur);
                if lines.is_empty() {
                    continue;
                }
                let n = lines.len();
                // make sure the last line has a terminator before reordering
                if let Some(l) = lines.last_mut() {
                    if !l.ends_with(b"\n") {
                        l.push(b'\n');
                    }
                }
                match op {
                    MutOp::SwapLines(a, b) => lines.swap(idx(*a, n), idx(*b, n)),
                    MutOp::DeleteLine(a) => {
                        lines.remove(idx(*a, n));
                    }
                    MutOp::DupLine(a) => {
                        let l = lines[idx(*a, n)].clone();
                        lines.insert(idx(*a, n), l);
                    }
                    MutOp::MoveLine(a, b) => {
                        let l = lines.remove(idx(*a, n));
                        let at = idx(*b, lines.len() + 1);
                        lines.insert(at, l);
                    }
                    _ => {}
                }
                cur = lines.concat();
            }
        }
    }
    cur
}

impl MutCase {
    pub fn bytes(&self) -> Vec<u8> {
        apply(&self.base.render_lf(), &self.ops, self.hostile)
    }
}

pub fn mut_op() -> impl Strategy<Value = MutOp> {
    prop_oneof![
        3 => (any::<u16>(), any::<u16>()).prop_map(|(a, b)| MutOp::ReplaceWithOther(a, b)),
        3 => (any::<u16>(), any::<u16>()).prop_map(|(a, b)| MutOp::ReplaceWithDict(a, b)),
        2 => (any::<u16>(), any::<u16>()).prop_map(|(a, b)| MutOp::InsertDict(a, b)),
        1 => any::<u16>().prop_map(MutOp::DeleteToken),
        1 => any::<u16>().prop_map(MutOp::DupToken),
        2 => (any::<u16>(), any::<u16>()).prop_map(|(a, b)| MutOp::SwapLines(a, b)),
        1 => any::<u16>().prop_map(MutOp::DeleteLine),
        2 => any::<u16>().prop_map(MutOp::DupLine),
        2 => (any::<u16>(), any::<u16>()).prop_map(|(a, b)| MutOp::MoveLine(a, b)),
    ]
}

pub fn mut_case(cfg: &GenCfg) -> BoxedStrategy<MutCase> {
    let cfg = GenCfg { long: 0, ..cfg.clone() };
    (map_file(&cfg), vec(mut_op(), 1..5), any::<u64>())
        .prop_map(|(base, ops, key)| MutCase { base, ops, hostile: false, key })
        .boxed()
}

pub fn hostile_case(cfg: &GenCfg) -> BoxedStrategy<MutCase> {
    let cfg = GenCfg { long: 0, ..cfg.clone() };
    (map_file(&cfg), vec(mut_op(), 1..7), any::<u64>())
        .prop_map(|(base, ops, key)| MutCase { base, ops, hostile: true, key })
        .boxed()
}

pub fn to_crlf(b: &[u8]) -> Vec<u8> {
    let mut out = Vec::with_capacity(b.len() + b.len() / 20);
    let mut prev = 0u8;
    for &c in b {
        if c == b'\n' && prev != b'\r' {
            out.push(b'\r');
        }
        out.push(c);
        prev = c;
    }
    out
}

pub const REPR_MAX: usize = 0xFFFF_FFFE; // numbers must be < 2^32-1

/// The representable domain of the cache format, as a predicate over the parsed record stream:
/// all names non-empty (a present file name included), all line numbers of usable ranges < 2^32-1.
pub fn representable(bytes: &[u8]) -> bool {
    let mapping = proguard::ProguardMapping::new(bytes);
    for rec in mapping.iter() {
        match rec {
            Ok(proguard::ProguardRecord::Class { original, obfuscated }) => {
                if original.is_empty() || obfuscated.is_empty() {
                    return false;
                }
            }
            Ok(proguard::ProguardRecord::Method { original, obfuscated, original_class, line_mapping, ty, .. }) => {
                if original.is_empty() || obfuscated.is_empty() || ty.is_empty() {
                    return false;
                }
                if original_class.map_or(false, |c| c.is_empty()) {
                    return false;
                }
                if let Some(lm) = line_mapping {
                    let nums = [Some(lm.startline), Some(lm.endline), lm.original_startline, lm.original_endline];
                    if nums.iter().flatten().any(|n| *n >= REPR_MAX + 1) {
                        return false;
                    }
                }
            }
            Ok(proguard::ProguardRecord::Header { key, value }) => {
                if key == "sourceFile" && value.map_or(false, |v| v.is_empty()) {
                    return false;
                }
            }
            _ => {}
        }
    }
    true
}

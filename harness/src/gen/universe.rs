//! The finite query universe of a mapping file: enumerated, not sampled.

use crate::gen::mapping::{Item, MapFile};
use std::collections::BTreeSet;

#[derive(Clone, Debug, Default)]
pub struct Universe {
    /// obfuscated class names that occur as a class line's right-hand side
    pub known_classes: Vec<String>,
    /// other class-like strings: original names, near-misses, unknowns, ""
    pub other_classes: Vec<String>,
    /// obfuscated method names
    pub known_methods: Vec<String>,
    pub other_methods: Vec<String>,
    pub params: Vec<String>,
    /// dense 0..=66 plus range boundaries and extremes
    pub lines: Vec<u64>,
    /// short list used for unknown classes/methods
    pub few_lines: Vec<u64>,
    /// file values of the queried frame beyond absent / "Q.java" (asked on a reduced line set)
    pub extra_files: Vec<String>,
}

pub const EXTREME_LINES: [u64; 4] = [(1 << 32) - 2, (1 << 32) - 1, 1 << 32, u64::MAX];

pub fn near_misses(name: &str, out: &mut BTreeSet<String>) {
    if name.len() > 600 {
        // very long names: only the cheap variants
        out.insert(format!("{name}x"));
        return;
    }
    let chars: Vec<char> = name.chars().collect();
    if !chars.is_empty() {
        // last char dropped / doubled
        let dropped: String = chars[..chars.len() - 1].iter().collect();
        out.insert(dropped);
        let mut doubled = name.to_string();
        doubled.push(*chars.last().unwrap());
        out.insert(doubled);
        // first char dropped
        out.insert(chars[1..].iter().collect());
    }
    // '$' <-> '.'
    if name.contains('$') {
        out.insert(name.replace('$', "."));
    }
    if name.contains('.') {
        out.insert(name.replace('.', "$"));
    }
    // case flip
    let flipped: String = chars
        .iter()
        .map(|c| if c.is_lowercase() { c.to_uppercase().next().unwrap_or(*c) } else { c.to_lowercase().next().unwrap_or(*c) })
        .collect();
    out.insert(flipped);
    // sort-order neighbours: immediate successor and a predecessor
    out.insert(format!("{name}\0"));
    out.insert(format!("{name} "));
    out.insert(format!("{name}/"));
    if let Some(last) = chars.last() {
        if let Some(p) = char::from_u32((*last as u32).wrapping_sub(1)) {
            let mut pred: String = chars[..chars.len() - 1].iter().collect();
            pred.push(p);
            pred.push('\u{10ffff}');
            out.insert(pred);
        }
    }
}

/// Systematic rewritings of a known name into the other notations the same class / method has elsewhere in the Java
/// world (descriptor form, module / class-loader prefixes of Java 9+ frames, a signature glued to a method name,
/// `.class` / `[]` suffixes). None of them is a name of the file, so every one must be answered like any unknown name.
pub fn notation_variants(name: &str, out: &mut BTreeSet<String>) {
    if name.is_empty() || name.len() > 200 {
        return;
    }
    let slashed = name.replace('.', "/");
    for v in [
        format!("L{name};"),
        format!("L{slashed};"),
        format!("[L{slashed};"),
        format!("[{name}"),
        slashed.clone(),
        format!("app//{name}"),
        format!("java.base/{name}"),
        format!("my.module@1.0/{name}"),
        format!("/{name}"),
        format!("{name}/"),
        format!("class {name}"),
        format!("{name}.class"),
        format!("{name}.java"),
        format!("{name}[]"),
        format!("{name};"),
        format!("{name}()"),
        format!("{name}(int)"),
        format!("{name}(I)V"),
        format!("{name}()V"),
        format!("{name}:"),
        format!("{name}: "),
        format!("{name}\t"),
        format!(" {name}"),
        format!("\u{feff}{name}"),
        format!("{name}\u{200b}"),
        format!("{name}$"),
        format!("${name}"),
        format!("{name}.{name}"),
        name.to_uppercase(),
        name.to_lowercase(),
    ] {
        out.insert(v);
    }
}

impl Universe {
    pub fn from_names(
        obf_classes: &BTreeSet<String>,
        orig_classes: &BTreeSet<String>,
        obf_methods: &BTreeSet<String>,
        orig_methods: &BTreeSet<String>,
        params: &BTreeSet<String>,
        ranges: &[(u64, u64)],
        near: bool,
    ) -> Universe {
        let mut other_c: BTreeSet<String> = BTreeSet::new();
        for c in orig_classes {
            other_c.insert(c.clone());
        }
        if near {
            for c in obf_classes {
                near_misses(c, &mut other_c);
            }
            // (the first and the last name of the file: the enlarged set multiplies the cross product)
            for c in obf_classes.iter().take(1).chain(obf_classes.iter().rev().take(1)) {
                notation_variants(c, &mut other_c);
            }
        }
        other_c.insert(String::new());
        other_c.insert("zz.Unknown".into());
        other_c.insert("java.lang.RuntimeException".into());
        for c in obf_classes {
            other_c.remove(c);
        }

        let mut other_m: BTreeSet<String> = BTreeSet::new();
        for m in orig_methods {
            other_m.insert(m.clone());
        }
        if near {
            for m in obf_methods {
                near_misses(m, &mut other_m);
            }
            for m in obf_methods.iter().take(1).chain(obf_methods.iter().rev().take(1)) {
                notation_variants(m, &mut other_m);
            }
        }
        other_m.insert(String::new());
        other_m.insert("unknownMethod".into());
        for m in obf_methods {
            other_m.remove(m);
        }

        let mut ps: BTreeSet<String> = params.clone();
        ps.insert(String::new());
        ps.insert("unknown.Param".into());
        // argument strings never contain parentheses: a parenthesised query must match nothing
        ps.insert("()".into());
        for p in params.iter().take(6) {
            ps.insert(format!("({p})"));
            ps.insert(format!("{p})"));
            ps.insert(format!(" {p}"));
        }
        // further respellings for the first and the last parameter string of the file
        for p in params.iter().take(1).chain(params.iter().rev().take(1)) {
            ps.insert(format!("{p} "));
            ps.insert(format!("{p},"));
            ps.insert(format!(",{p}"));
            ps.insert(format!("{p};"));
            // other spellings of the same list: the separator as format_signature prints it, descriptor form
            if p.contains(',') {
                ps.insert(p.replace(',', ", "));
                ps.insert(p.replace(',', " ,"));
                ps.insert(p.replace(',', ";"));
                ps.insert(p.replace(',', ""));
            }
            ps.insert(p.replace('.', "/"));
            ps.insert(p.to_uppercase());
        }
        if near {
            let snapshot: Vec<String> = params.iter().take(8).cloned().collect();
            for p in snapshot {
                ps.insert(format!("{p},int"));
                if let Some((a, _)) = p.rsplit_once(',') {
                    ps.insert(a.to_string());
                }
            }
        }

        let mut lines: BTreeSet<u64> = (0..=66).collect();
        for &(s, e) in ranges {
            for v in [s.wrapping_sub(1), s, s.wrapping_add(1), e.wrapping_sub(1), e, e.wrapping_add(1), s / 2 + e / 2] {
                lines.insert(v);
            }
        }
        for v in EXTREME_LINES {
            lines.insert(v);
        }
        // aliases of in-range lines modulo 2^32 (a reader narrowing the caller's line to 32 bits would hit them)
        lines.insert((1u64 << 32) + 1);
        for &(s, e) in ranges.iter().take(24) {
            lines.insert((1u64 << 32).wrapping_add(s));
            lines.insert((1u64 << 32).wrapping_add(e));
            lines.insert((1u64 << 33).wrapping_add(s));
        }

        Universe {
            known_classes: obf_classes.iter().cloned().collect(),
            other_classes: other_c.into_iter().collect(),
            known_methods: obf_methods.iter().cloned().collect(),
            other_methods: other_m.into_iter().collect(),
            params: ps.into_iter().collect(),
            lines: lines.into_iter().collect(),
            few_lines: vec![0, 1, 7],
            extra_files: vec![crate::gen::mapping::SYNTHETIC.to_string(), String::new(), "<unknown>".to_string(), "Foo.kt".to_string()],
        }
    }

    pub fn from_ast(f: &MapFile, near: bool) -> Universe {
        let mut oc = BTreeSet::new();
        let mut rc = BTreeSet::new();
        let mut om = BTreeSet::new();
        let mut rm = BTreeSet::new();
        let mut ps = BTreeSet::new();
        let mut ranges = Vec::new();
        let mut visit = |items: &[Item]| {
            for it in items {
                if let Item::Method(m) = it {
                    om.insert(m.obf.clone());
                    rm.insert(m.oname.clone());
                    ps.insert(m.args.clone());
                    if let Some(c) = &m.oclass {
                        rc.insert(c.clone());
                    }
                    if let Some(r) = m.range {
                        ranges.push(r);
                    }
                }
            }
        };
        visit(&f.prelude);
        for b in &f.blocks {
            visit(&b.items);
        }
        for b in &f.blocks {
            oc.insert(b.obf.clone());
            rc.insert(b.orig.clone());
        }
        Universe::from_names(&oc, &rc, &om, &rm, &ps, &ranges, near)
    }

    /// Build from the public record iterator of the library (for corpus / mutated byte files, where no AST exists).
    pub fn from_bytes(bytes: &[u8], near: bool, max_classes: usize, pick: u64) -> Universe {
        let mut oc = BTreeSet::new();
        let mut rc = BTreeSet::new();
        let mut om = BTreeSet::new();
        let mut rm = BTreeSet::new();
        let mut ps = BTreeSet::new();
        let mut ranges = Vec::new();
        let mapping = proguard::ProguardMapping::new(bytes);
        // first pass: number of classes, to sample `max_classes` of them evenly
        let n_classes = mapping
            .iter()
            .filter(|r| matches!(r, Ok(proguard::ProguardRecord::Class { .. })))
            .count();
        let stride = (n_classes / max_classes.max(1)).max(1);
        let offset = (pick as usize) % stride;
        let mut ci = 0usize;
        let mut take = false;
        for rec in mapping.iter() {
            match rec {
                Ok(proguard::ProguardRecord::Class { original, obfuscated }) => {
                    take = ci % stride == offset;
                    ci += 1;
                    if take {
                        oc.insert(obfuscated.to_string());
                        rc.insert(original.to_string());
                    }
                }
                Ok(proguard::ProguardRecord::Method { original, obfuscated, arguments, original_class, line_mapping, .. }) if take => {
                    om.insert(obfuscated.to_string());
                    rm.insert(original.to_string());
                    ps.insert(arguments.to_string());
                    if let Some(c) = original_class {
                        rc.insert(c.to_string());
                    }
                    if let Some(lm) = line_mapping {
                        if ranges.len() < 400 {
                            ranges.push((lm.startline as u64, lm.endline as u64));
                        }
                    }
                }
                _ => {}
            }
        }
        // cap the method/param universes for very large corpus files
        let cap = |s: BTreeSet<String>, n: usize| -> BTreeSet<String> {
            if s.len() <= n {
                s
            } else {
                let stride = s.len() / n;
                s.into_iter().step_by(stride.max(1)).collect()
            }
        };
        Universe::from_names(&oc, &cap(rc, 200), &cap(om, 60), &cap(rm, 60), &cap(ps, 40), &ranges, near)
    }

    pub fn all_classes(&self) -> impl Iterator<Item = (&str, bool)> {
        self.known_classes
            .iter()
            .map(|s| (s.as_str(), true))
            .chain(self.other_classes.iter().map(|s| (s.as_str(), false)))
    }

    pub fn all_methods(&self) -> impl Iterator<Item = (&str, bool)> {
        self.known_methods
            .iter()
            .map(|s| (s.as_str(), true))
            .chain(self.other_methods.iter().map(|s| (s.as_str(), false)))
    }
}

//! Mapping-file AST, proptest strategies for it, and rendering to bytes.
//!
//! Everything is built from stock proptest combinators so that failing cases shrink
//! block-by-block, line-by-line and name-by-name.

use proptest::collection::vec;
use proptest::prelude::*;
use proptest::sample::select;
use serde::{Deserialize, Serialize};

pub const SYNTHETIC: &str = "R8$$SyntheticClass";

/// weighted union that tolerates zero weights (proptest's `Union::new_weighted` panics on them)
pub fn wunion<T: std::fmt::Debug + 'static>(opts: Vec<(u32, BoxedStrategy<T>)>) -> BoxedStrategy<T> {
    let opts: Vec<(u32, BoxedStrategy<T>)> = opts.into_iter().filter(|(w, _)| *w > 0).collect();
    proptest::strategy::Union::new_weighted(opts).boxed()
}

#[derive(Clone, Debug, PartialEq, Eq, Serialize, Deserialize)]
pub enum OLines {
    None,
    S(u64),
    SE(u64, u64),
}

#[derive(Clone, Debug, PartialEq, Eq, Serialize, Deserialize)]
pub struct Method {
    pub range: Option<(u64, u64)>,
    pub ty: String,
    pub oclass: Option<String>,
    pub oname: String,
    pub args: String,
    pub olines: OLines,
    pub obf: String,
}

impl Method {
    /// the obfuscated range is usable iff printed and both numbers positive
    pub fn usable(&self) -> Option<(u64, u64)> {
        match self.range {
            Some((s, e)) if s > 0 && e > 0 => Some((s, e)),
            _ => None,
        }
    }
}

#[derive(Clone, Debug, PartialEq, Eq, Serialize, Deserialize)]
pub enum Item {
    Method(Method),
    Field { ty: String, orig: String, obf: String },
    /// `# {"id":"sourceFile","fileName":"…"}`
    SourceFile(String),
    /// `# key[: value]`
    Header { key: String, value: Option<String> },
    /// a line that is not a record (must not parse); rendered verbatim
    Noise(String),
    /// empty line(s)
    Blank,
}

#[derive(Clone, Debug, PartialEq, Eq, Serialize, Deserialize)]
pub struct Block {
    pub orig: String,
    pub obf: String,
    pub items: Vec<Item>,
}

#[derive(Clone, Debug, PartialEq, Eq, Serialize, Deserialize)]
pub enum Eol {
    Lf,
    CrLf,
    Cr,
    /// per-line choice driven by the bits of the value
    Mixed(u64),
}

#[derive(Clone, Debug, PartialEq, Eq, Serialize, Deserialize)]
pub struct Render {
    pub eol: Eol,
    pub final_eol: bool,
}

impl Default for Render {
    fn default() -> Self {
        Render { eol: Eol::Lf, final_eol: true }
    }
}

#[derive(Clone, Debug, PartialEq, Eq, Serialize, Deserialize)]
pub struct MapFile {
    pub prelude: Vec<Item>,
    pub blocks: Vec<Block>,
}

impl MapFile {
    /// Degenerate variant: zero-length names. Outside the domain in which mapper and cache are comparable (the cache's
    /// string table cannot hold ""), but inside "every mapping" / "every byte string": per block, `key` selects which
    /// slot is emptied — all obfuscated method names (several entries then share the empty name and differ in their
    /// arguments only), all sourceFile values, the original method names, the obfuscated class name, the argument
    /// strings, or the return types.
    pub fn degenerate(&self, key: u64) -> MapFile {
        let mut k = key | 1;
        let mut next = move || {
            k ^= k << 13;
            k ^= k >> 7;
            k ^= k << 17;
            k
        };
        let mut out = self.clone();
        for b in &mut out.blocks {
            let mode = next() % 8;
            if mode == 3 {
                b.obf.clear();
            }
            for it in &mut b.items {
                match it {
                    Item::Method(m) => match mode {
                        0 => m.obf.clear(),
                        2 => m.oname.clear(),
                        4 => m.args.clear(),
                        5 => {
                            if next() % 2 == 0 {
                                m.obf.clear()
                            }
                        }
                        6 => m.oclass = m.oclass.as_ref().map(|_| String::new()),
                        _ => {}
                    },
                    Item::SourceFile(n) => {
                        if mode == 1 || mode == 5 || mode == 7 {
                            n.clear()
                        }
                    }
                    Item::Header { key, value } if key == "sourceFile" => {
                        if mode == 1 || mode == 7 {
                            *value = Some(String::new())
                        }
                    }
                    Item::Field { obf, .. } => {
                        if mode == 0 {
                            obf.clear()
                        }
                    }
                    _ => {}
                }
            }
        }
        out
    }
}

// ---------------------------------------------------------------------------------------------
// rendering

pub fn render_method(m: &Method) -> String {
    let mut s = String::from("    ");
    if let Some((a, b)) = m.range {
        s.push_str(&format!("{a}:{b}:"));
    }
    s.push_str(&m.ty);
    s.push(' ');
    if let Some(c) = &m.oclass {
        s.push_str(c);
        s.push('.');
    }
    s.push_str(&m.oname);
    s.push('(');
    s.push_str(&m.args);
    s.push(')');
    match m.olines {
        OLines::None => {}
        OLines::S(a) => s.push_str(&format!(":{a}")),
        OLines::SE(a, b) => s.push_str(&format!(":{a}:{b}")),
    }
    s.push_str(" -> ");
    s.push_str(&m.obf);
    s
}

pub fn render_item(it: &Item) -> String {
    match it {
        Item::Method(m) => render_method(m),
        Item::Field { ty, orig, obf } => format!("    {ty} {orig} -> {obf}"),
        Item::SourceFile(n) => format!("# {{\"id\":\"sourceFile\",\"fileName\":\"{n}\"}}"),
        Item::Header { key, value: Some(v) } => format!("# {key}: {v}"),
        Item::Header { key, value: None } => format!("# {key}"),
        Item::Noise(s) => s.clone(),
        Item::Blank => String::new(),
    }
}

pub fn render_class(b: &Block) -> String {
    format!("{} -> {}:", b.orig, b.obf)
}

impl MapFile {
    pub fn lines(&self) -> Vec<String> {
        let mut out = Vec::new();
        for it in &self.prelude {
            out.push(render_item(it));
        }
        for b in &self.blocks {
            out.push(render_class(b));
            for it in &b.items {
                out.push(render_item(it));
            }
        }
        out
    }

    pub fn render(&self, r: &Render) -> Vec<u8> {
        join_lines(&self.lines(), r)
    }

    pub fn render_lf(&self) -> Vec<u8> {
        self.render(&Render::default())
    }

    /// all obfuscated names distinct?
    pub fn distinct_blocks(&self) -> bool {
        let mut seen = std::collections::HashSet::new();
        self.blocks.iter().all(|b| seen.insert(b.obf.as_str()))
    }

    /// Same file with noise and blank lines removed.
    pub fn without_noise(&self) -> MapFile {
        let f = |v: &Vec<Item>| {
            v.iter()
                .filter(|i| !matches!(i, Item::Noise(_) | Item::Blank))
                .cloned()
                .collect::<Vec<_>>()
        };
        MapFile {
            prelude: f(&self.prelude),
            blocks: self
                .blocks
                .iter()
                .map(|b| Block { orig: b.orig.clone(), obf: b.obf.clone(), items: f(&b.items) })
                .collect(),
        }
    }

    /// Same file with the blocks permuted by `perm` (only call when `distinct_blocks()`).
    pub fn permuted(&self, key: u64) -> MapFile {
        let mut idx: Vec<usize> = (0..self.blocks.len()).collect();
        // deterministic Fisher-Yates driven by key
        let mut k = key | 1;
        for i in (1..idx.len()).rev() {
            k ^= k << 13;
            k ^= k >> 7;
            k ^= k << 17;
            let j = (k % (i as u64 + 1)) as usize;
            idx.swap(i, j);
        }
        MapFile {
            prelude: self.prelude.clone(),
            blocks: idx.into_iter().map(|i| self.blocks[i].clone()).collect(),
        }
    }

    pub fn n_methods(&self) -> usize {
        self.blocks
            .iter()
            .map(|b| b.items.iter().filter(|i| matches!(i, Item::Method(_))).count())
            .sum()
    }
}

pub fn join_lines(lines: &[String], r: &Render) -> Vec<u8> {
    let mut out = Vec::new();
    let n = lines.len();
    for (i, l) in lines.iter().enumerate() {
        out.extend_from_slice(l.as_bytes());
        if i + 1 < n || r.final_eol {
            let e: &[u8] = match &r.eol {
                Eol::Lf => b"\n",
                Eol::CrLf => b"\r\n",
                Eol::Cr => b"\r",
                Eol::Mixed(bits) => match (bits >> ((i * 2) % 62)) & 3 {
                    0 => b"\n",
                    1 => b"\r\n",
                    2 => b"\r",
                    _ => b"\n\n",
                },
            };
            out.extend_from_slice(e);
        }
    }
    out
}

// ---------------------------------------------------------------------------------------------
// name pools

pub const OBF_CLASSES: &[&str] = &[
    "a", "a.a", "a.b", "a$a", "ab", "A", "é", "I", "Lib", "a.a$1", "b", "c",
    // names that coincide with tokens of other notations: primitive keywords and codes, descriptor-shaped names
    "int", "void", "boolean", "V", "Z", "La/a;", "a/a",
];
pub const ORIG_CLASSES: &[&str] = &[
    "com.example.Foo",
    "com.example.Foo$Bar",
    "com.example.Baz",
    "Main",
    "org.x.Outer$Inner$1",
    "ü.Ünï",
    "com.example.foo.Bar$$ExternalSyntheticLambda0",
    "x.Long",
    "a.a",
    "$Proxy",
];
pub const OBF_METHODS: &[&str] = &["a", "b", "c", "<init>", "onClick"];
pub const ORIG_METHODS: &[&str] = &["foo", "bar", "<init>", "run", "lambda$onCreate$0", "access$000"];
pub const ARGS: &[&str] = &["", "int", "java.lang.String,int", "a.b[]", "android.view.View"];
pub const TYPES: &[&str] = &["void", "int", "java.lang.Object", "a.b[]", "com.example.Foo$Bar"];
pub const FOREIGN: &[&str] = &[
    "com.example.Other",
    "kotlin.jvm.internal.Intrinsics",
    "x.Y$Z",
    "é.ü",
    "Outer$Inner",
];
pub const FILES: &[&str] = &[
    "Foo.kt", "SourceFile", SYNTHETIC, "Bar.java", "ü.kt", "My File.kt",
    // near-misses of the one file name with a special meaning
    "R8$$SyntheticClassKt.kt", "R8$$", "R8$$SyntheticClas", "xR8$$SyntheticClass", "r8$$syntheticclass", "R8$$SyntheticClass.java", "R8$$SyntheticClass ",
];

/// identifier characters that are legal in every name slot of the grammar
/// (no space, colon, parentheses, dot, line terminators, quote, arrow)
const ID_START: &[&str] = &[
    "a", "b", "x", "Z", "Q", "_", "$", "<", "é", "ü", "漢", "𝒳", "L", "I", "V", "a", "b", "x", "@", "{", "\\", "/", "~", "\u{1f600}",
    // BMP characters above the surrogate range (UTF-8 byte order != UTF-16 code-unit order against supplementary
    // characters) and Unicode spaces that are legal in dex names (str::trim would strip them)
    "Ａ", "\u{e000}", "\u{a0}", "\u{3000}", "\u{feff}",
];
const ID_CONT: &[&str] = &[
    "a", "b", "x", "Z", "0", "1", "9", "_", "$", "<", ">", "-", "[", "]", "é", "漢", "𝒳", ";", "a", "b", "0", "\"", "\\", "/", "@", "{", "}", "!", "?", "*", "+", "=", "~", "^", "%", "&", "|", "'", "`",
    "\u{a0}x", "\u{2028}y", "\u{1f600}", "\u{7f}", "Ａ", "\u{e000}", "\u{ffee}", "\u{a0}", "\u{3000}", "\u{2028}", "\u{feff}", "\u{b}", "\u{c}",
];

pub fn ident() -> impl Strategy<Value = String> {
    (select(ID_START), vec(select(ID_CONT), 0..6)).prop_map(|(a, b)| {
        let mut s = a.to_string();
        for c in b {
            s.push_str(c);
        }
        s
    })
}

/// long identifier (multi-byte LEB128 length prefixes in the cache: >127 and >16383 bytes)
pub fn long_ident() -> impl Strategy<Value = String> {
    // byte lengths at and around the LEB128 prefix boundaries (127/128, 255/256, 16383/16384) and multiples of 128
    let exact = select(&[126usize, 127, 128, 129, 255, 256, 257, 384, 512, 1024][..]);
    prop_oneof![
        5 => (128usize..420, select(&["a", "b", "x", "Z", "_", "$", "é", "漢", "𝒳"][..])).prop_map(|(n, c)| format!("L{}", c.repeat(n))),
        5 => (exact, select(&["a", "q", "Z"][..])).prop_map(|(n, c)| c.repeat(n)),
        1 => (select(&[16382usize, 16383, 16384, 16385, 16500][..]), select(&["a", "b"][..])).prop_map(|(n, c)| c.repeat(n)),
        // 16-bit length limits (class-file CONSTANT_Utf8) are a tempting but wrong bound for mapping tokens
        1 => (select(&[65534usize, 65535, 65536, 65537, 70000][..]), select(&["a", "b"][..])).prop_map(|(n, c)| c.repeat(n)),
    ]
}

pub fn dotted(max_seg: usize) -> impl Strategy<Value = String> {
    vec(ident(), 1..=max_seg).prop_map(|v| v.join("."))
}

fn pool_or<S: Strategy<Value = String> + 'static>(
    pool: &'static [&'static str],
    fresh: S,
    pool_w: u32,
    fresh_w: u32,
    long_w: u32,
) -> BoxedStrategy<String> {
    wunion(vec![
        (pool_w, select(pool).prop_map(|s| s.to_string()).boxed()),
        (fresh_w, fresh.boxed()),
        (long_w, long_ident().boxed()),
    ])
}

#[derive(Clone, Debug)]
pub struct GenCfg {
    pub max_blocks: usize,
    pub max_items: usize,
    pub max_prelude: usize,
    /// noise / blank lines allowed
    pub noise: bool,
    /// `# sourceFile` bare and `# sourceFile: X` key/value headers allowed (their meaning is only fixed differentially)
    pub plain_sourcefile_headers: bool,
    /// header / field records may be put between two methods with the identical usable range
    pub records_inside_inline_groups: bool,
    /// weight of fresh (non-pool) names, 0..100
    pub fresh: u32,
    /// weight of very long names
    pub long: u32,
    /// bias towards by-params-interesting shapes (overloads, duplicates)
    pub overloads: bool,
    /// probability weight for numbers near 2^31 / 2^32-2
    pub big_numbers: bool,
    /// a method may repeat the previous method's range shifted by a multiple of 2^32 (leaves the representable
    /// domain of the cache's line fields; only used where line values do not matter, i.e. by-params lookups)
    pub alias_ranges: bool,
}

impl Default for GenCfg {
    fn default() -> Self {
        GenCfg {
            max_blocks: 6,
            max_items: 10,
            max_prelude: 3,
            noise: true,
            plain_sourcefile_headers: false,
            records_inside_inline_groups: true,
            fresh: 12,
            long: 1,
            overloads: false,
            big_numbers: true,
            alias_ranges: false,
        }
    }
}

pub const MAX_REPR: u64 = (1u64 << 32) - 2; // largest representable line number (< 2^32-1)

pub fn small_line() -> impl Strategy<Value = u64> {
    prop_oneof![
        6 => 1u64..20,
        3 => 0u64..66,
        1 => Just(0u64),
    ]
}

pub fn line_number(big: bool) -> BoxedStrategy<u64> {
    if big {
        prop_oneof![
            60 => small_line(),
            25 => 1u64..200,
            5 => 1000u64..100000,
            4 => prop_oneof![Just(1u64 << 31), Just((1u64 << 31) - 1), Just((1u64 << 31) + 1)],
            6 => (0u64..4).prop_map(|d| MAX_REPR - d),
        ]
        .boxed()
    } else {
        prop_oneof![70 => small_line(), 30 => 1u64..200].boxed()
    }
}

/// obfuscated range: small, single-line, inverted, zero, long
pub fn range(big: bool) -> BoxedStrategy<Option<(u64, u64)>> {
    prop_oneof![
        12 => Just(None),
        30 => (1u64..40, 0u64..12).prop_map(|(s, d)| Some((s, s + d))),
        20 => (1u64..60).prop_map(|s| Some((s, s))),
        6 => (2u64..60, 1u64..10).prop_map(|(s, d)| Some((s, s.saturating_sub(d).max(1)))), // inverted (or equal)
        5 => prop_oneof![Just(Some((0u64, 0u64))), (1u64..30).prop_map(|n| Some((0, n))), (1u64..30).prop_map(|n| Some((n, 0)))],
        10 => (line_number(big), line_number(big)).prop_map(|(a, b)| Some((a, b))),
        5 => (line_number(big), 0u64..300).prop_map(|(a, d)| Some((a, (a + d).min(MAX_REPR)))),
        // spans at the 8/16-bit boundaries and multiples of 2^16
        4 => (1u64..40, select(POW_SPANS)).prop_map(|(s, d)| Some((s, s + d))),
    ]
    .boxed()
}

pub const POW_SPANS: &[u64] = &[255, 256, 257, 65535, 65536, 65537, 131072, 196608];

pub fn olines(big: bool) -> BoxedStrategy<OLines> {
    prop_oneof![
        20 => Just(OLines::None),
        25 => line_number(big).prop_map(OLines::S),
        20 => line_number(big).prop_map(|a| OLines::SE(a, a)),
        25 => (1u64..80, 0u64..14).prop_map(|(a, d)| OLines::SE(a, a + d)),
        5 => (2u64..80, 1u64..10).prop_map(|(a, d)| OLines::SE(a, a.saturating_sub(d))),
        5 => (line_number(big), line_number(big)).prop_map(|(a, b)| OLines::SE(a, b)),
        4 => (1u64..80, select(POW_SPANS)).prop_map(|(a, d)| OLines::SE(a, a + d)),
    ]
    .boxed()
}

pub fn obf_class(cfg: &GenCfg) -> BoxedStrategy<String> {
    // obfuscated class: no ':' (ends the slot), no line terminator
    pool_or(OBF_CLASSES, dotted(3), 100 - cfg.fresh - cfg.long, cfg.fresh, cfg.long)
}
pub fn orig_class(cfg: &GenCfg) -> BoxedStrategy<String> {
    pool_or(ORIG_CLASSES, dotted(4), 100 - cfg.fresh - cfg.long, cfg.fresh, cfg.long)
}
pub fn obf_method(cfg: &GenCfg) -> BoxedStrategy<String> {
    pool_or(OBF_METHODS, ident(), 100 - cfg.fresh - cfg.long, cfg.fresh, cfg.long)
}
pub fn orig_method(cfg: &GenCfg) -> BoxedStrategy<String> {
    pool_or(ORIG_METHODS, ident(), 100 - cfg.fresh - cfg.long, cfg.fresh, cfg.long)
}
pub fn args(cfg: &GenCfg) -> BoxedStrategy<String> {
    pool_or(
        ARGS,
        vec(dotted(2), 1..4).prop_map(|v| v.join(",")),
        100 - cfg.fresh - cfg.long,
        cfg.fresh,
        cfg.long,
    )
}
pub fn ty(cfg: &GenCfg) -> BoxedStrategy<String> {
    // never starts with an ASCII digit: ID_START has none
    pool_or(TYPES, dotted(3), 100 - cfg.fresh, cfg.fresh, 0)
}
pub fn foreign(cfg: &GenCfg) -> BoxedStrategy<Option<String>> {
    prop_oneof![
        70 => Just(None),
        30 => pool_or(FOREIGN, dotted(3), 100 - cfg.fresh, cfg.fresh, 0).prop_map(Some),
    ]
    .boxed()
}
pub fn file_name(cfg: &GenCfg) -> BoxedStrategy<String> {
    // the file name slot of the sourceFile JSON ends at the next double quote: names never contain their slot's delimiter
    pool_or(FILES, ident().prop_map(|s| format!("{}.kt", s.replace('"', "q"))), 100 - cfg.fresh, cfg.fresh, 0)
}

pub fn method(cfg: &GenCfg) -> BoxedStrategy<Method> {
    (range(cfg.big_numbers), ty(cfg), foreign(cfg), orig_method(cfg), args(cfg), olines(cfg.big_numbers), obf_method(cfg))
        .prop_map(|(range, ty, oclass, oname, args, olines, obf)| Method { range, ty, oclass, oname, args, olines, obf })
        .boxed()
}

pub const NOISE_LINES: &[&str] = &[
    "garbage",
    "  two.space indent() -> x",
    "a->b:",
    "no arrow here:",
    "    void missingArrow()",
    "    1:void startWithoutEnd() -> x",
    "    nospace() -> x",
    "\u{feff}",
    "com.example.Foo -> a",
    "    void unterminated(int -> x",
    "   three spaces -> x",
    "x - > y:",
];

pub fn header(cfg: &GenCfg) -> BoxedStrategy<Item> {
    let plain = cfg.plain_sourcefile_headers;
    let f = file_name(cfg);
    let h = |k: &str, v: Option<&str>| Just(Item::Header { key: k.into(), value: v.map(|s| s.to_string()) }).boxed();
    wunion(vec![
        (3, h("compiler", Some("R8"))),
        (2, h("compiler_version", Some("2.0.74"))),
        (2, h("min_api", Some("15"))),
        (2, h("pg_map_id", Some("7e6e8e1"))),
        (2, h("common_typos_disable", None)),
        (2, h("{\"id\":\"com.android.tools.r8.mapping\",\"version\":\"2.0\"}", None)),
        (2, h("{\"id\":\"com.android.tools.r8.synthesized\"}", None)),
        (2, h("sourceFileX", Some("nope.kt"))),
        (1, h("SourceFile", Some("nope.kt"))),
        (1, h("sourcefile", Some("nope.kt"))),
        (1, h("source_file", Some("nope.kt"))),
        (1, h("{\"id\":\"sourcefile\",\"fileName\":\"nope.kt\"}", None)),
        (1, h("{\"id\":\"sourceFile\",\"filename\":\"nope.kt\"}", None)),
        (1, h("{\"id\": \"sourceFile\", \"fileName\": \"nope.kt\"}", None)),
        (1, h("{\"fileName\":\"nope.kt\",\"id\":\"sourceFile\"}", None)),
        (if plain { 4 } else { 0 }, h("sourceFile", None)),
        (if plain { 4 } else { 0 }, f.prop_map(|n| Item::Header { key: "sourceFile".into(), value: Some(n) }).boxed()),
    ])
}

pub fn item(cfg: &GenCfg) -> BoxedStrategy<Item> {
    let noise_w = if cfg.noise { 6 } else { 0 };
    wunion(vec![
        (62, method(cfg).prop_map(Item::Method).boxed()),
        (8, (ty(cfg), orig_method(cfg), obf_method(cfg)).prop_map(|(ty, orig, obf)| Item::Field { ty, orig, obf }).boxed()),
        (12, file_name(cfg).prop_map(Item::SourceFile).boxed()),
        (6, header(cfg)),
        (noise_w, select(NOISE_LINES).prop_map(|s| Item::Noise(s.to_string())).boxed()),
        (noise_w / 2, Just(Item::Blank).boxed()),
    ])
}

/// Items of one block. Post-processing creates inline groups (a method reusing the previous method's
/// obfuscated name and range), overloads and duplicates, which independent draws would rarely produce.
pub fn block_items(cfg: &GenCfg) -> BoxedStrategy<Vec<Item>> {
    let cfg2 = cfg.clone();
    vec((item(cfg), 0u8..100, 0u8..100), 0..=cfg.max_items)
        .prop_map(move |raw| {
            let mut out: Vec<Item> = Vec::with_capacity(raw.len());
            for (it, dice, dice2) in raw {
                let mut it = it;
                if let Item::Method(m) = &mut it {
                    // find previous method
                    let prev = out.iter().rev().find_map(|i| if let Item::Method(p) = i { Some(p.clone()) } else { None });
                    if let Some(p) = prev {
                        let (inl, ovl, dup) = if cfg2.overloads { (25, 45, 60) } else { (25, 35, 40) };
                        if cfg2.alias_ranges && dice >= 94 {
                            // same obfuscated name, range equal modulo 2^32 (NOT an inline group)
                            m.obf = p.obf.clone();
                            let k = 1 + (dice2 as u64 % 3);
                            m.range = p.range.map(|(s, e)| (s + (k << 32), e + (k << 32)));
                            if p.range.is_none() {
                                m.range = Some((k << 32, k << 32));
                            }
                        } else if dice < inl {
                            // inline group: same obfuscated name and range
                            m.obf = p.obf.clone();
                            m.range = p.range;
                        } else if dice < ovl {
                            // overload: same obfuscated name
                            m.obf = p.obf.clone();
                            if dice2 < 50 {
                                m.oname = p.oname.clone();
                            }
                        } else if dice < dup {
                            // repeated (obf, args, original) triple
                            m.obf = p.obf.clone();
                            m.args = p.args.clone();
                            m.oname = p.oname.clone();
                            if dice2 < 30 {
                                m.range = p.range;
                            }
                        }
                    }
                }
                out.push(it);
            }
            if !cfg2.records_inside_inline_groups {
                out = separate_inline_groups(out);
            }
            out
        })
        .boxed()
}

/// Move header/field records that sit between two methods with identical usable ranges behind the second
/// method (C03: "followed by an entry with the identical range" is only unambiguous for adjacent records).
pub fn separate_inline_groups(items: Vec<Item>) -> Vec<Item> {
    let mut out: Vec<Item> = Vec::with_capacity(items.len());
    let mut pending: Vec<Item> = Vec::new();
    for it in items {
        match &it {
            Item::Method(m) => {
                let prev_usable = out.iter().rev().find_map(|i| match i {
                    Item::Method(p) => Some(p.usable()),
                    Item::Noise(_) | Item::Blank => None,
                    _ => Some(None),
                });
                let same = matches!((prev_usable, m.usable()), (Some(Some(a)), Some(b)) if a == b);
                if same || pending.is_empty() {
                    out.push(it);
                    // records that were pending go after this method when they would have split a group
                    out.append(&mut pending);
                } else {
                    out.append(&mut pending);
                    out.push(it);
                }
            }
            Item::Field { .. } | Item::SourceFile(_) | Item::Header { .. } => {
                // hold back: decide when the next method arrives
                let last_is_method = matches!(out.iter().rev().find(|i| !matches!(i, Item::Noise(_) | Item::Blank)), Some(Item::Method(_)));
                if last_is_method {
                    pending.push(it);
                } else {
                    out.push(it);
                }
            }
            _ => {
                if pending.is_empty() {
                    out.push(it)
                } else {
                    pending.push(it)
                }
            }
        }
    }
    out.append(&mut pending);
    out
}

pub fn block(cfg: &GenCfg) -> BoxedStrategy<Block> {
    (orig_class(cfg), obf_class(cfg), block_items(cfg), 0u8..100)
        .prop_map(|(orig, obf, mut items, dice)| {
            // an entry may be qualified with its OWN enclosing class (it still "has an original class": the
            // foreign-class file rule applies to it like to any other qualified entry)
            if dice < 12 {
                let mut k = dice as usize;
                for it in items.iter_mut() {
                    if let Item::Method(m) = it {
                        k += 1;
                        if k % 3 == 0 {
                            m.oclass = Some(orig.clone());
                        }
                    }
                }
            }
            // kept (`-keep`) classes and members map to themselves: the remapped frame then equals the queried one
            if (88..100).contains(&dice) {
                let keep_class = dice % 2 == 0;
                for it in items.iter_mut() {
                    match it {
                        Item::Method(m) => {
                            m.oname = m.obf.clone();
                            if dice >= 94 {
                                m.oclass = None;
                                m.olines = match m.range {
                                    Some((s, e)) if dice % 3 == 0 => OLines::SE(s, e),
                                    Some((s, _)) if dice % 3 == 1 => OLines::S(s),
                                    _ => OLines::None,
                                };
                            }
                        }
                        Item::Field { orig, obf, .. } => *orig = obf.clone(),
                        _ => {}
                    }
                }
                let orig = if keep_class { obf.clone() } else { orig };
                return Block { orig, obf, items };
            }
            Block { orig, obf, items }
        })
        .boxed()
}

pub fn map_file(cfg: &GenCfg) -> BoxedStrategy<MapFile> {
    let c = cfg.clone();
    (
        vec(
            wunion(vec![
                (6, header(cfg)),
                (2, method(cfg).prop_map(Item::Method).boxed()),
                (if cfg.noise { 2 } else { 0 }, select(NOISE_LINES).prop_map(|s| Item::Noise(s.to_string())).boxed()),
                (if cfg.noise { 1 } else { 0 }, Just(Item::Blank).boxed()),
                (1, file_name(cfg).prop_map(Item::SourceFile).boxed()),
            ]),
            0..=cfg.max_prelude,
        ),
        vec((block(cfg), 0u8..100), 0..=cfg.max_blocks),
    )
        .prop_map(move |(prelude, blocks)| {
            let _ = &c;
            // with some probability a block copies an earlier block's items (same triples in two classes:
            // leak detection for per-class state) or its obfuscated name (duplicate class blocks)
            let mut out: Vec<Block> = Vec::with_capacity(blocks.len());
            for (mut b, dice) in blocks {
                if let Some(prev) = out.last().cloned() {
                    if dice < 10 {
                        b.items = prev.items.clone();
                    } else if dice < 16 {
                        b.obf = prev.obf.clone();
                    }
                }
                out.push(b);
            }
            MapFile { prelude, blocks: out }
        })
        .boxed()
}

/// "Tall" profile: few classes with hundreds of member lines over a handful of obfuscated method names
/// (long inline chains, hundreds of overloads of one name, many methods per class).
pub fn tall_file(cfg: &GenCfg, max_items: usize) -> BoxedStrategy<MapFile> {
    let cfg = GenCfg { max_items, max_blocks: 3, fresh: 4, long: 0, ..cfg.clone() };
    vec((orig_class(&cfg), obf_class(&cfg), block_items(&cfg), 0u8..4), 1..=3)
        .prop_map(|blocks| MapFile {
            prelude: vec![],
            blocks: blocks
                .into_iter()
                .map(|(orig, obf, mut items, mode)| {
                    // concentrate the methods on very few obfuscated names so that one name owns hundreds of entries
                    for (i, it) in items.iter_mut().enumerate() {
                        if let Item::Method(m) = it {
                            match mode {
                                0 => m.obf = "a".to_string(),
                                1 => m.obf = ["a", "b"][i % 2].to_string(),
                                2 => m.obf = format!("m{}", i % 300),
                                _ => {}
                            }
                        }
                    }
                    Block { orig, obf, items }
                })
                .collect(),
        })
        .boxed()
}

pub fn render_cfg() -> BoxedStrategy<Render> {
    (
        prop_oneof![
            4 => Just(Eol::Lf),
            2 => Just(Eol::CrLf),
            1 => Just(Eol::Cr),
            2 => any::<u64>().prop_map(Eol::Mixed),
        ],
        prop::bool::weighted(0.7),
    )
        .prop_map(|(eol, final_eol)| Render { eol, final_eol })
        .boxed()
}

// ---------------------------------------------------------------------------------------------
// wide profile: many classes with adversarially similar names

pub fn similar_names(n: usize) -> BoxedStrategy<Vec<String>> {
    // build names from a tiny alphabet so that prefixes, '$'/'.' variants, case variants and non-ASCII
    // neighbours are all present
    let atom = select(&["a", "b", "A", "$", ".", "é", "ab", "a$", "a.", "Z", "z", "0", "_", "ü", "漢", "𝒳", "Ａ", "\u{e000}", "\u{10ffff}", "!", "(", "%"][..]);
    vec(vec(atom, 1..5).prop_map(|v| {
        let mut s: String = v.concat();
        // no leading/trailing dot and no empty names
        s = s.trim_matches('.').to_string();
        while s.contains("..") {
            s = s.replace("..", ".");
        }
        if s.is_empty() || s.chars().next().map_or(false, |c| c.is_ascii_digit()) {
            s = format!("k{s}");
        }
        s
    }), 1..=n)
    .boxed()
}

pub fn wide_file(max_classes: usize, cfg: &GenCfg) -> BoxedStrategy<MapFile> {
    let cfg = GenCfg { max_items: 4, fresh: 5, long: 0, ..cfg.clone() };
    (similar_names(max_classes), vec((orig_class(&cfg), block_items(&cfg)), max_classes))
        .prop_map(|(names, bodies)| {
            let blocks = names
                .into_iter()
                .zip(bodies)
                .map(|(obf, (orig, items))| Block { orig, obf, items })
                .collect();
            MapFile { prelude: vec![], blocks }
        })
        .boxed()
}

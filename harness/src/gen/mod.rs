pub mod descriptor;
pub mod mapping;
pub mod mutate;
pub mod trace;
pub mod universe;

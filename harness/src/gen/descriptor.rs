//! JVM method descriptor ASTs.

use proptest::collection::vec;
use proptest::prelude::*;
use proptest::sample::select;
use serde::{Deserialize, Serialize};

#[derive(Clone, Debug, PartialEq, Eq, Serialize, Deserialize, Hash)]
pub enum Ty {
    /// one of Z B C S I J F D
    Prim(char),
    /// slash-separated internal name
    Obj(String),
    Array(u8, Box<Ty>),
}

#[derive(Clone, Debug, PartialEq, Eq, Serialize, Deserialize, Hash)]
pub struct Desc {
    pub params: Vec<Ty>,
    /// None = void
    pub ret: Option<Ty>,
}

pub const PRIMS: &[char] = &['Z', 'B', 'C', 'S', 'I', 'J', 'F', 'D'];

pub fn prim_name(c: char) -> &'static str {
    match c {
        'Z' => "boolean",
        'B' => "byte",
        'C' => "char",
        'S' => "short",
        'I' => "int",
        'J' => "long",
        'F' => "float",
        'D' => "double",
        _ => "?",
    }
}

impl Ty {
    pub fn encode(&self, out: &mut String) {
        match self {
            Ty::Prim(c) => out.push(*c),
            Ty::Obj(p) => {
                out.push('L');
                out.push_str(p);
                out.push(';');
            }
            Ty::Array(n, t) => {
                for _ in 0..*n {
                    out.push('[');
                }
                t.encode(out);
            }
        }
    }
    /// expected Java rendering; `lookup` maps a dotted obfuscated class name to its original
    pub fn java(&self, lookup: &dyn Fn(&str) -> Option<String>) -> String {
        match self {
            Ty::Prim(c) => prim_name(*c).to_string(),
            Ty::Obj(p) => {
                let dotted = p.replace('/', ".");
                lookup(&dotted).unwrap_or(dotted)
            }
            Ty::Array(n, t) => {
                let mut s = t.java(lookup);
                for _ in 0..*n {
                    s.push_str("[]");
                }
                s
            }
        }
    }
    pub fn has_obj_or_array(&self) -> bool {
        !matches!(self, Ty::Prim(_))
    }
    pub fn is_obj(&self) -> bool {
        match self {
            Ty::Obj(_) => true,
            Ty::Array(_, t) => t.is_obj(),
            _ => false,
        }
    }
}

impl Desc {
    pub fn encode(&self) -> String {
        let mut s = String::from("(");
        for p in &self.params {
            p.encode(&mut s);
        }
        s.push(')');
        match &self.ret {
            Some(t) => t.encode(&mut s),
            None => s.push('V'),
        }
        s
    }
    pub fn expected(&self, lookup: &dyn Fn(&str) -> Option<String>) -> (Vec<String>, String, String) {
        let params: Vec<String> = self.params.iter().map(|p| p.java(lookup)).collect();
        let ret = match &self.ret {
            Some(t) => t.java(lookup),
            None => "void".to_string(),
        };
        let mut f = format!("({})", params.join(", "));
        if ret != "void" {
            f.push_str(": ");
            f.push_str(&ret);
        }
        (params, ret, f)
    }
}

/// adversarial internal names: start with / equal to primitive letters, contain 'L', non-ASCII, '$'
pub const ADVERSARIAL: &[&str] = &["I", "Lib", "x/Long", "L", "IL", "é/ü", "a$b", "ZBCSIJFD", "V", "java/lang/String", "a/b/C$1", "LL", "x/VI", "漢/字",
    // characters the formatted signature itself uses as separators
    "a, b", "x,y", "spec/given a, then b", "sp ace", "a: b"];

pub fn obj_path(mapped: &[String]) -> BoxedStrategy<String> {
    // mapped: dotted obfuscated class names of the mapping, rendered with '/'
    let mapped: Vec<String> = mapped
        .iter()
        .filter(|c| !c.is_empty() && !c.contains(';') && !c.contains('/') && !c.contains(')') && !c.contains('(') && c.len() < 200)
        .map(|c| c.replace('.', "/"))
        .collect();
    if mapped.is_empty() {
        select(ADVERSARIAL).prop_map(|s| s.to_string()).boxed()
    } else {
        prop_oneof![
            5 => select(mapped),
            4 => select(ADVERSARIAL).prop_map(|s| s.to_string()),
            1 => Just("zz/Unknown".to_string()),
        ]
        .boxed()
    }
}

pub fn ty(mapped: &[String]) -> BoxedStrategy<Ty> {
    let base = prop_oneof![
        4 => select(PRIMS).prop_map(Ty::Prim),
        5 => obj_path(mapped).prop_map(Ty::Obj),
    ];
    let base2 = prop_oneof![
        4 => select(PRIMS).prop_map(Ty::Prim),
        5 => obj_path(mapped).prop_map(Ty::Obj),
    ];
    prop_oneof![
        7 => base,
        3 => (1u8..=3, base2).prop_map(|(n, t)| Ty::Array(n, Box::new(t))),
    ]
    .boxed()
}

pub fn desc(mapped: &[String]) -> BoxedStrategy<Desc> {
    (vec(ty(mapped), 0..=6), prop::option::weighted(0.7, ty(mapped)))
        .prop_map(|(params, ret)| Desc { params, ret })
        .boxed()
}

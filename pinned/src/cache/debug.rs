use std::fmt;

use crate::ProguardCache;

use super::raw;

/// A variant of a class entry in a proguard cache file with
/// nice-ish `Debug` and `Display` representations.
pub struct ClassDebug<'a, 'data> {
    pub(crate) cache: &'a ProguardCache<'data>,
    pub(crate) raw: &'a raw::Class,
}

impl ClassDebug<'_, '_> {
    fn obfuscated_name(&self) -> &str {
        self.cache
            .read_string(self.raw.obfuscated_name_offset)
            .unwrap()
    }

    fn original_name(&self) -> &str {
        self.cache
            .read_string(self.raw.original_name_offset)
            .unwrap()
    }

    fn file_name(&self) -> Option<&str> {
        self.cache.read_string(self.raw.file_name_offset).ok()
    }
}

impl fmt::Debug for ClassDebug<'_, '_> {
    fn fmt(&self, f: &mut fmt::Formatter<'_>) -> fmt::Result {
        f.debug_struct("Class")
            .field("obfuscated_name", &self.obfuscated_name())
            .field("original_name", &self.original_name())
            .field("file_name", &self.file_name())
            .finish()
    }
}

impl fmt::Display for ClassDebug<'_, '_> {
    fn fmt(&self, f: &mut fmt::Formatter<'_>) -> fmt::Result {
        write!(f, "{} -> {}:", self.original_name(), self.obfuscated_name())?;
        if let Some(file_name) = self.file_name() {
            writeln!(f)?;
            write!(f, r##"# {{"id":"sourceFile","fileName":"{file_name}"}}"##)?;
        }
        Ok(())
    }
}

/// A variant of a member entry in a proguard cache file with
/// nice-ish `Debug` and `Display` representations.
pub struct MemberDebug<'a, 'data> {
    pub(crate) cache: &'a ProguardCache<'data>,
    pub(crate) raw: &'a raw::Member,
}

impl MemberDebug<'_, '_> {
    fn original_class(&self) -> Option<&str> {
        self.cache.read_string(self.raw.original_class_offset).ok()
    }

    fn original_file(&self) -> Option<&str> {
        self.cache.read_string(self.raw.original_file_offset).ok()
    }

    fn params(&self) -> &str {
        self.cache
            .read_string(self.raw.params_offset)
            .unwrap_or_default()
    }

    fn obfuscated_name(&self) -> &str {
        self.cache
            .read_string(self.raw.obfuscated_name_offset)
            .unwrap()
    }

    fn original_name(&self) -> &str {
        self.cache
            .read_string(self.raw.original_name_offset)
            .unwrap()
    }

    fn original_endline(&self) -> Option<u32> {
        if self.raw.original_endline != u32::MAX {
            Some(self.raw.original_endline)
        } else {
            None
        }
    }
}

impl fmt::Debug for MemberDebug<'_, '_> {
    fn fmt(&self, f: &mut fmt::Formatter<'_>) -> fmt::Result {
        f.debug_struct("Member")
            .field("obfuscated_name", &self.obfuscated_name())
            .field("startline", &self.raw.startline)
            .field("endline", &self.raw.endline)
            .field("original_name", &self.original_name())
            .field("original_class", &self.original_class())
            .field("original_file", &self.original_file())
            .field("original_startline", &self.raw.original_startline)
            .field("original_endline", &self.original_endline())
            .field("params", &self.params())
            .finish()
    }
}

impl fmt::Display for MemberDebug<'_, '_> {
    fn fmt(&self, f: &mut fmt::Formatter<'_>) -> fmt::Result {
        // XXX: We could print the actual return type here if we saved it in the format.
        // Wonder if it's worth it, since we'd only use it in this display impl.
        write!(f, "    {}:{}:<ret> ", self.raw.startline, self.raw.endline)?;
        if let Some(original_class) = self.original_class() {
            write!(f, "{original_class}.")?;
        }
        write!(
            f,
            "{}({}):{}",
            self.original_name(),
            self.params(),
            self.raw.original_startline
        )?;
        if let Some(end) = self.original_endline() {
            write!(f, ":{end}")?;
        }
        write!(f, " -> {}", self.obfuscated_name())?;
        Ok(())
    }
}

pub struct CacheDebug<'a, 'data> {
    cache: &'a ProguardCache<'data>,
}

impl fmt::Display for CacheDebug<'_, '_> {
    fn fmt(&self, f: &mut fmt::Formatter<'_>) -> fmt::Result {
        for class in self.cache.classes {
            writeln!(
                f,
                "{}",
                ClassDebug {
                    raw: class,
                    cache: self.cache
                }
            )?;
            let Some(members) = self.cache.get_class_members(class) else {
                continue;
            };

            for member in members {
                writeln!(
                    f,
                    "{}",
                    MemberDebug {
                        raw: member,
                        cache: self.cache
                    }
                )?;
            }
        }
        Ok(())
    }
}

impl<'data> ProguardCache<'data> {
    /// Returns an iterator over class entries in this cache file that can be debug printed.
    pub fn debug_classes<'r>(&'r self) -> impl Iterator<Item = ClassDebug<'r, 'data>> {
        self.classes.iter().map(move |c| ClassDebug {
            cache: self,
            raw: c,
        })
    }

    /// Returns an iterator over member entries in this cache file that can be debug printed.
    pub fn debug_members<'r>(&'r self) -> impl Iterator<Item = MemberDebug<'r, 'data>> {
        self.members.iter().map(move |m| MemberDebug {
            cache: self,
            raw: m,
        })
    }

    /// Returns an iterator over by-params member entries in this cache file that can be debug printed.
    pub fn debug_members_by_params<'r>(&'r self) -> impl Iterator<Item = MemberDebug<'r, 'data>> {
        self.members_by_params.iter().map(move |m| MemberDebug {
            cache: self,
            raw: m,
        })
    }

    /// Creates a view of the cache that implements `Display`.
    ///
    /// The `Display` impl is very similar to the original proguard format.
    pub fn display(&self) -> CacheDebug {
        CacheDebug { cache: self }
    }
}

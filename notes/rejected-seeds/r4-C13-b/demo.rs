//! Demo for seeded change B: a cache that was written into a pre-sized / reused memory buffer
//! (so that unrelated bytes follow the cache) must still parse and answer queries.

use std::io::Cursor;

use proguard::{ProguardCache, ProguardMapping, StackFrame};

const MAPPING: &[u8] = b"\
com.example.Outer -> a.b:
# {\"id\":\"sourceFile\",\"fileName\":\"Outer.kt\"}
    1:3:void run():10:12 -> c
    4:4:void com.example.Util.help():7:7 -> c
    4:4:void run():13 -> c
com.example.Other -> a.d:
    void stop() -> e
";

fn check(cache_bytes: &[u8]) {
    let cache = ProguardCache::parse(cache_bytes).expect("a freshly written cache must parse");
    assert_eq!(cache.remap_class("a.b"), Some("com.example.Outer"));
    assert_eq!(cache.remap_method("a.d", "e"), Some(("com.example.Other", "stop")));
    let frames: Vec<_> = cache.remap_frame(&StackFrame::new("a.b", "c", 2)).collect();
    assert_eq!(
        frames,
        vec![StackFrame::with_file("com.example.Outer", "run", 11, "Outer.kt")]
    );
    let out = cache
        .remap_stacktrace("a.b: boom\n    at a.b.c(SourceFile:4)\n")
        .unwrap();
    assert!(out.contains("com.example.Util.help"), "{out}");
}

/// Baseline: exact-size buffer.
#[test]
fn exact_buffer() {
    let mapping = ProguardMapping::new(MAPPING);
    let mut buf = Vec::new();
    ProguardCache::write(&mapping, &mut buf).unwrap();
    check(&buf);
}

/// The cache is written into a pre-allocated, zeroed memory block (like a slab slot or an
/// mmap'ed page) and the whole block is handed to `parse`.
#[test]
fn preallocated_zeroed_block() {
    let mapping = ProguardMapping::new(MAPPING);
    let mut block = vec![0u8; 4096];
    {
        let mut cursor = Cursor::new(&mut block[..]);
        ProguardCache::write(&mapping, &mut cursor).unwrap();
    }
    check(&block);
}

/// A long-lived `Cursor<Vec<u8>>` is rewound and reused: first a bigger cache, then a smaller
/// one. The tail of the first cache is still in the buffer behind the second one.
#[test]
fn reused_cursor() {
    let big = {
        let mut s = String::new();
        for i in 0..50 {
            s.push_str(&format!("com.example.Klass{i} -> x.y{i}:\n    1:2:void m{i}():5:6 -> z\n"));
        }
        s
    };
    let mut cursor = Cursor::new(Vec::new());
    ProguardCache::write(&ProguardMapping::new(big.as_bytes()), &mut cursor).unwrap();
    cursor.set_position(0);
    ProguardCache::write(&ProguardMapping::new(MAPPING), &mut cursor).unwrap();
    let buf = cursor.into_inner();
    check(&buf);
}

/// Two caches appended to one buffer; the first one is parsed from the front.
#[test]
fn appended_padding() {
    let mapping = ProguardMapping::new(MAPPING);
    let mut buf = Vec::new();
    ProguardCache::write(&mapping, &mut buf).unwrap();
    for pad in 1..=9 {
        let mut padded = buf.clone();
        padded.extend(std::iter::repeat(0u8).take(pad));
        check(&padded);
    }
}

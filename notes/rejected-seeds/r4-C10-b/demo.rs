//! Demonstration for seeded change B (property C10).
//!
//! `FILE_550` is a cache file exactly as the 5.5.0 release wrote it for `MAPPING`
//! (`ProguardCache::write`, 397 bytes, format version 1). The 5.5.0 release parses that file,
//! answers queries from it, and its `ProguardCache::test()` accepts it. A later release that
//! still accepts version-1 files has to treat the file the same way.

use proguard::{ProguardCache, ProguardMapping, StackFrame};

const MAPPING: &str = "\
com.example.MainFragment$onActivityCreated$4 -> a:
    1:1:void com.example.MainFragment$Rocket.fly():83 -> onClick
    1:1:void onClick(android.view.View):65 -> onClick
com.example.Other -> b:
    1:2:void run():10:11 -> a
";

const FILE_550: &str = "\
5052474301000000020000000300000002000000850000000000000002000000\
ffffffff000000000200000000000000010000006d0000006f000000ffffffff\
020000000100000002000000010000002f00000001000000010000003b000000\
ffffffff3700000053000000ffffffffffffffff2f0000000100000001000000\
ffffffffffffffff2f00000041000000ffffffff5b0000000000000001000000\
02000000ffffffffffffffff810000000a0000000b000000ffffffff00000000\
2f0000000100000001000000ffffffffffffffff2f00000041000000ffffffff\
5b000000000000000100000002000000ffffffffffffffff810000000a000000\
0b000000ffffffff01612c636f6d2e6578616d706c652e4d61696e467261676d\
656e74246f6e4163746976697479437265617465642434076f6e436c69636b03\
666c791f636f6d2e6578616d706c652e4d61696e467261676d656e7424526f63\
6b657411616e64726f69642e766965772e56696577016211636f6d2e6578616d\
706c652e4f746865720372756e";

fn file_550() -> Vec<u8> {
    (0..FILE_550.len())
        .step_by(2)
        .map(|i| u8::from_str_radix(&FILE_550[i..i + 2], 16).unwrap())
        .collect()
}

/// An 8-byte aligned copy of `bytes`, as `ProguardCache::parse` needs it.
struct Aligned(Vec<u64>, usize);

impl Aligned {
    fn new(bytes: &[u8]) -> Self {
        let mut words = vec![0u64; bytes.len() / 8 + 1];
        for (i, b) in bytes.iter().enumerate() {
            words[i / 8] |= (*b as u64) << (8 * (i % 8));
        }
        assert!(cfg!(target_endian = "little"));
        Aligned(words, bytes.len())
    }

    fn bytes(&self) -> &[u8] {
        // SAFETY: `u64`s are plain bytes, and `self.1` bytes lie within the vector.
        unsafe { std::slice::from_raw_parts(self.0.as_ptr() as *const u8, self.1) }
    }
}

/// The file really is what 5.5.0 writes: the only difference to the current writer is the
/// known one, 5.5.0 stored each class's `members_offset` as its `members_by_params_offset`.
#[test]
fn file_is_the_one_5_5_0_wrote() {
    let mut buf = Vec::new();
    ProguardCache::write(&ProguardMapping::new(MAPPING.as_bytes()), &mut buf).unwrap();
    let num_classes = u32::from_le_bytes(buf[8..12].try_into().unwrap()) as usize;
    for class in 0..num_classes {
        let at = 24 + 28 * class;
        let members_offset: [u8; 4] = buf[at + 12..at + 16].try_into().unwrap();
        buf[at + 20..at + 24].copy_from_slice(&members_offset);
    }
    assert_eq!(buf, file_550());
}

/// The 5.5.0 file is accepted, and answered as 5.5.0 answers it.
#[test]
fn file_of_5_5_0_is_answered() {
    let file = Aligned::new(&file_550());
    let cache = ProguardCache::parse(file.bytes()).unwrap();

    assert_eq!(
        cache.remap_class("a"),
        Some("com.example.MainFragment$onActivityCreated$4")
    );
    assert_eq!(cache.remap_class("b"), Some("com.example.Other"));
    assert_eq!(cache.remap_method("b", "a"), Some(("com.example.Other", "run")));
    assert_eq!(
        cache
            .remap_frame(&StackFrame::new("a", "onClick", 1))
            .collect::<Vec<_>>(),
        vec![
            StackFrame::new("com.example.MainFragment$Rocket", "fly", 83),
            StackFrame::new("com.example.MainFragment$onActivityCreated$4", "onClick", 65),
        ]
    );
    assert_eq!(
        cache
            .remap_frame(&StackFrame::new("b", "a", 2))
            .collect::<Vec<_>>(),
        vec![StackFrame::new("com.example.Other", "run", 11)]
    );
    assert_eq!(
        cache
            .remap_frame(&StackFrame::with_parameters(
                "a",
                "onClick",
                "android.view.View"
            ))
            .collect::<Vec<_>>(),
        vec![StackFrame::with_parameters(
            "com.example.MainFragment$onActivityCreated$4",
            "onClick",
            "android.view.View"
        )]
    );
}

/// 5.5.0's own integrity check, `ProguardCache::test()`, passes on this file (it returns
/// normally), so the file is a sound version-1 file to every release that accepts version 1.
#[test]
fn file_of_5_5_0_passes_the_integrity_check() {
    let file = Aligned::new(&file_550());
    let cache = ProguardCache::parse(file.bytes()).unwrap();
    cache.test();
}

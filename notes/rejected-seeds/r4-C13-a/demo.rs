//! Demo for seeded change A: typed remapping of a trace with a long (but modest) cause chain.
//!
//! The chain below has 1500 `Caused by:` levels. The unchanged library answers this on an
//! ordinary 2 MiB thread stack (the default of `std::thread::spawn` and of the test harness);
//! it only runs out of stack beyond ~4000 levels there.

use proguard::{ProguardCache, ProguardMapper, ProguardMapping, StackFrame, StackTrace};

const MAPPING: &str = "\
com.example.Outer -> a.b:
    1:3:void run():10:12 -> c
    4:4:void com.example.Util.help():7:7 -> c
    4:4:void run():13 -> c
";

const DEPTH: usize = 1500;

fn trace_text(depth: usize) -> String {
    let mut text = String::from("a.b: boom\n    at a.b.c(SourceFile:4)\n    at x.y.z(Unknown.java:1)\n");
    for i in 0..depth {
        text.push_str(&format!(
            "Caused by: a.b: level {i}\n    at a.b.c(SourceFile:2)\n"
        ));
    }
    text
}

fn check(remapped: &StackTrace<'_>, depth: usize) {
    assert_eq!(
        remapped.frames(),
        &[
            StackFrame::new("com.example.Util", "help", 7),
            StackFrame::with_file("com.example.Outer", "run", 13, "SourceFile"),
            StackFrame::with_file("x.y", "z", 1, "Unknown.java"),
        ][..]
    );
    let mut levels = 0;
    let mut current = remapped;
    while let Some(cause) = current.cause() {
        assert_eq!(cause.exception().unwrap().class(), "com.example.Outer");
        assert_eq!(
            cause.frames(),
            &[StackFrame::with_file("com.example.Outer", "run", 11, "SourceFile")][..]
        );
        levels += 1;
        current = cause;
    }
    assert_eq!(levels, depth);
}

fn on_default_thread(f: impl FnOnce() + Send + 'static) {
    // 2 MiB is the documented default stack size of spawned threads.
    std::thread::Builder::new()
        .stack_size(2 * 1024 * 1024)
        .spawn(f)
        .unwrap()
        .join()
        .unwrap();
}

#[test]
fn mapper_typed_trace_with_long_cause_chain() {
    on_default_thread(|| {
        let text = trace_text(DEPTH);
        let trace = StackTrace::try_parse(text.as_bytes()).unwrap();
        let mapper = ProguardMapper::new(ProguardMapping::new(MAPPING.as_bytes()));
        let remapped = mapper.remap_stacktrace_typed(&trace);
        check(&remapped, DEPTH);
    });
}

#[test]
fn cache_typed_trace_with_long_cause_chain() {
    on_default_thread(|| {
        let text = trace_text(DEPTH);
        let trace = StackTrace::try_parse(text.as_bytes()).unwrap();
        let mut buf = Vec::new();
        ProguardCache::write(&ProguardMapping::new(MAPPING.as_bytes()), &mut buf).unwrap();
        let cache = ProguardCache::parse(&buf).unwrap();
        let remapped = cache.remap_stacktrace_typed(&trace);
        check(&remapped, DEPTH);
    });
}

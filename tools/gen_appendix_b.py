#!/usr/bin/env python3
"""Regenerate the seeded-change tables of DESIGN.md Appendix B from seeded/*/meta.json.
The block between the markers <!-- seeded-tables:begin --> and <!-- seeded-tables:end --> is replaced."""
import json, os, re, glob, sys
HERE = os.path.dirname(os.path.dirname(os.path.abspath(__file__)))
metas = {}
for p in sorted(glob.glob(os.path.join(HERE, "seeded", "*", "meta.json"))):
    m = json.load(open(p))
    metas[m["name"]] = m

def rnd(name):
    m = re.match(r"r(\d)-", name)
    return int(m.group(1)) if m else 1

def caught_by(m):
    prop = m["breaks_property"]
    c = m.get("checks", {}).get(prop, {})
    v = c.get("quick", "not run")
    d = c.get("detail", "")
    mm = re.search(r"stage=(\S+) sig=(\S+)", d)
    if v == "CAUGHT" and mm:
        s = f"{prop} `{mm.group(2)}` (stage {mm.group(1)})"
        if ".plain" in d or c.get("pass") == "plain":
            s += " — second build (no debug assertions) only"
        return s
    if v == "CAUGHT":
        return f"{prop} (static: compile-time assertion)" if prop == "C20" else f"{prop}"
    extra = [f"{k} {list(x.keys())[0]}: {list(x.values())[0]}" for k, x in m.get("checks", {}).items() if k != prop and isinstance(x, dict) and "CAUGHT" in x.values()]
    return f"**{v}** by {prop} quick" + (f"; {', '.join(extra)}" if extra else "")

titles = {1: "**Round 1** (2 per property)", 2: "**Round 2** (3 per property, asked to evade a generic harness)", 3: "**Round 3** (2 per property, told what the harness covers)", 4: "**Round 4** (2 per property, told everything that was added since; 3 of 40 deliveries rejected as outside the stated properties)", 5: "**Round 5** (2 each for 8 properties, told what round 4 added)", 6: "**Round 6** (2 each for the other 12 properties, told what round 5 added; 1 of 24 deliveries rejected as outside the stated property)"}
out = []
total = caught = 0
for r in (1, 2, 3, 4, 5, 6):
    names = [n for n in metas if rnd(n) == r]
    if not names:
        continue
    c = sum(1 for n in names if metas[n].get("checks", {}).get(metas[n]["breaks_property"], {}).get("quick") == "CAUGHT")
    total += len(names); caught += c
    out.append(f"{titles[r]}; {c} / {len(names)} caught by the quick tier of the property's own check:\n")
    if r == 1:
        out.append("| Change | Caught by |\n|---|---|")
        for n in names:
            out.append(f"| `{n}` | {caught_by(metas[n])} |")
    else:
        out.append("| Change | Needs | Caught by |\n|---|---|---|")
        for n in names:
            need = metas[n].get("needs_to_manifest", "").replace("|", "\\|")
            out.append(f"| `{n}` | {need} | {caught_by(metas[n])} |")
    out.append("")
out.append(f"Total: **{caught} of {total}**.\n")
text = "\n".join(out)
p = os.path.join(HERE, "DESIGN.md")
s = open(p).read()
b, e = "<!-- seeded-tables:begin -->", "<!-- seeded-tables:end -->"
if b not in s or e not in s:
    sys.exit("markers not found in DESIGN.md")
s = s[: s.index(b) + len(b)] + "\n" + text + s[s.index(e):]
open(p, "w").write(s)
print(f"Appendix B tables regenerated: {caught} of {total}")

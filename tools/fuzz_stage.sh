#!/usr/bin/env bash
# Coverage-guided stage of the thorough tier for C06 / C12 / C13 (libFuzzer via cargo-fuzz).
#   tools/fuzz_stage.sh <ID>
# The semantic oracle of the property runs inside the target (pgverif::fuzzapi::must). A crash = oracle failure.
# exit 0 = no finding (or stage skipped, recorded in the evidence), exit 1 = finding (VIOLATION line printed).
set -u
HERE="$(cd "$(dirname "$0")/.." && pwd)"
ID="$1"
case "$ID" in
  C06) TARGET=c06_parse;; C12) TARGET=c12_corrupt;; C13) TARGET=c13_total;; C07) TARGET=c07_text;; C17) TARGET=c17_text;;
  *) echo "no fuzz target for $ID"; exit 0;;
esac
SECS="${VERIF_FUZZ_SECS:-300}"
JOBS="${VERIF_FUZZ_JOBS:-8}"
SEED="${VERIF_SEED:-20261001}"; [ "$SEED" = "0" ] && SEED=1
export CARGO_NET_OFFLINE=true
LOG="$HERE/logs/fuzz-$ID.log"
mkdir -p "$HERE/logs"
note() { # append a note about the fuzz stage to the evidence file
  python3 - "$HERE/evidence/$ID.json" "$1" "$2" "$3" <<'PY'
import json,sys
p,status,execs,detail=sys.argv[1:5]
try:
    d=json.load(open(p))
except Exception:
    sys.exit(0)
c=d.setdefault("coverage",{})
c["libfuzzer_stage"]={"status":status,"executions":int(execs),"detail":detail}
if status=="skipped":
    c.setdefault("skipped_stages",[]).append("libFuzzer stage: "+detail)
if status=="finding":
    d["violations"]=d.get("violations",0)+1
json.dump(d,open(p,"w"),indent=1)
PY
}
FUZZ_DIR="$HERE/fuzz"
if [ -n "${VERIF_REPO_OVERRIDE:-}" ]; then
  # sensitivity runs: build the targets against a scratch copy of the repository (cargo-fuzz rejects --config,
  # so a copy of the fuzz package with a paths override in its own .cargo/config.toml is used)
  FUZZ_DIR="$VERIF_REPO_OVERRIDE/.verif-fuzz"
  rm -rf "$FUZZ_DIR"; mkdir -p "$FUZZ_DIR/.cargo"
  cp -r "$HERE/fuzz/Cargo.toml" "$HERE/fuzz/Cargo.lock" "$HERE/fuzz/fuzz_targets" "$FUZZ_DIR/"
  mkdir -p "$VERIF_REPO_OVERRIDE/.cargo"
  printf 'paths = ["%s"]\n[net]\noffline = true\n' "$VERIF_REPO_OVERRIDE" > "$VERIF_REPO_OVERRIDE/.cargo/config.toml"
  PROJ="$VERIF_REPO_OVERRIDE"
fi
cd "${PROJ:-$HERE/harness}" || exit 0
if ! cargo +nightly fuzz build --fuzz-dir "$FUZZ_DIR" "$TARGET" >"$LOG" 2>&1; then
  echo "fuzz stage skipped: cargo +nightly fuzz build failed (see $LOG)"
  note skipped 0 "cargo +nightly fuzz build failed"
  exit 0
fi
DICT="$HERE/fuzz/dict/mapping.dict"; case "$ID" in C07|C17) DICT="$HERE/fuzz/dict/trace.dict";; esac
WORK="$(mktemp -d /tmp/pgv-fuzz-$ID-XXXXXX)"
trap 'rm -rf "$WORK"' EXIT
mkdir -p "$WORK/corpus" "$WORK/artifacts"
"$HERE/harness/target/release/pgverif" gen-seeds "$ID" "$WORK/corpus" >/dev/null 2>&1
BIN="$FUZZ_DIR/target/x86_64-unknown-linux-gnu/release/$TARGET"
( cd "$WORK" && "$BIN" corpus -artifact_prefix="$WORK/artifacts/" -dict="$DICT" -max_total_time="$SECS" -seed="$SEED" \
    -fork="$JOBS" -ignore_crashes=0 -max_len=1500 -len_control=0 -timeout=20 -rss_limit_mb=4096 -print_final_stats=1 ) >>"$LOG" 2>&1
EXECS=$(grep -oE "#[0-9]+: cov" "$LOG" | tail -1 | tr -dc 0-9)
[ -z "$EXECS" ] && EXECS=$(grep -oE "stat::number_of_executed_units: [0-9]+" "$LOG" | tail -1 | tr -dc 0-9)
[ -z "$EXECS" ] && EXECS=0
CRASH=$(ls "$WORK/artifacts"/crash-* 2>/dev/null | head -1)
if [ -n "$CRASH" ]; then
  mkdir -p "$HERE/replays/$ID"
  DEST="$HERE/replays/$ID/fuzz-$(basename "$CRASH" | cut -c7-22).bin"
  cp "$CRASH" "$DEST"
  # confirm through the plain (non-libFuzzer) replay path: only a reproducing oracle failure counts
  if "${VERIF_PGVERIF_BIN:-$HERE/harness/target/release/pgverif}" replay-bin "$ID" "$DEST" >"$WORK/replay.out" 2>&1; then
    # The oracle is silent without the sanitizer. The target itself is an AddressSanitizer build and cache buffers
    # are exact-size allocations (api::AlignedBuf): a read behind the buffer (C12) or a stack overflow (C13) is a
    # violation of the statement itself. It counts only if the sanitizer report reproduces on the saved input twice.
    ASAN_PAT=""; case "$ID" in C12) ASAN_PAT="ERROR: AddressSanitizer";; C13) ASAN_PAT="AddressSanitizer: stack-overflow";; esac
    if [ -n "$ASAN_PAT" ]; then
      n=0
      for k in 1 2; do "$BIN" "$DEST" >"$WORK/asan$k.out" 2>&1; grep -q "$ASAN_PAT" "$WORK/asan$k.out" && n=$((n+1)); done
      if [ $n -eq 2 ]; then
        WHAT=$(grep -m1 "AddressSanitizer" "$WORK/asan1.out" | cut -c1-200)
        echo "VIOLATION property=$ID replay=$DEST"
        echo "  stage=libfuzzer sig=asan : $WHAT"
        note finding "$EXECS" "sanitizer report reproduces on the saved input: $WHAT"
        exit 1
      fi
    fi
    echo "fuzz stage: libFuzzer reported a crash that does not reproduce through the oracle (kept at $DEST); not a verdict"
    note skipped "$EXECS" "crash artifact did not reproduce through the oracle: $DEST"
    exit 0
  fi
  echo "VIOLATION property=$ID replay=$DEST"
  grep -m1 "sig=" "$WORK/replay.out"
  note finding "$EXECS" "$(grep -m1 'sig=' "$WORK/replay.out" | cut -c1-300)"
  exit 1
fi
OOM=$(ls "$WORK/artifacts"/oom-* "$WORK/artifacts"/timeout-* 2>/dev/null | head -1)
if [ -n "$OOM" ]; then
  echo "fuzz stage: timeout/oom artifact (inconclusive, not a violation): $OOM"
  note skipped "$EXECS" "libFuzzer timeout/oom artifact (inconclusive)"
  exit 0
fi
if [ "$EXECS" = "0" ]; then
  # libFuzzer did not run at all (bad flag, dictionary error, start-up failure): that is not "no finding"
  echo "fuzz stage skipped: libFuzzer executed nothing (see $LOG): $(tail -n 2 "$LOG" | tr '\n' ' ' | cut -c1-200)"
  note skipped 0 "libFuzzer executed nothing: $(tail -n 1 "$LOG" | cut -c1-150 | tr -d '"')"
  exit 0
fi
echo "fuzz stage $ID: $EXECS executions in ${SECS}s x $JOBS jobs, no finding"
note ok "$EXECS" "target $TARGET, ${SECS}s, $JOBS fork jobs, seed $SEED, dictionary + generated/corpus seeds"
exit 0

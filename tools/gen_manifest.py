#!/usr/bin/env python3
"""Generate /verif/MANIFEST.json from the table below and validate it against the schema."""
import json, os, sys
HERE = os.path.dirname(os.path.dirname(os.path.abspath(__file__)))

# id -> (level, technique, level text, level note, design ref)
CHECKS = {
 "C01": ("exploration", "property-based testing (proptest) against a reference retrace model computed from the generated mapping AST (and from corpus files via an independent strict line recogniser); metamorphic renderings; complete enumerated by-line query universe incl. frame-file values; every mapper constructor; structured scale mappings crossing 256/4096/65536 thresholds; every way of consuming the result iterator (nth/skip/step_by/count/last/clone/size_hint) against next(); notation variants of known names as queries; dense sweeps (every scale kind for n = 1..40, re-declared class names in 2..48+ blocks)",
   "Generated-input search: every by-line query of the finite universe of each generated mapping, in three renderings, for mapper, mapper-with-params and cache, must equal the answer of a reference model written from the property statement. Exploration: holds on everything generated, no proof.",
   "Trusts the reference model (formulas of the statement; cross-checked mapper vs cache) and the generator's domain (non-empty names, numbers < 2^32-1). Buffers 8-byte aligned.", "DESIGN.md §4 C01"),
 "C02": ("exploration", "property-based differential testing (proptest): mapper vs cache over the complete enumerated query universe of generated, token-mutated, tall, scale and corpus mappings; all mapper constructors; model-based history stage (random repeated query sequences on long-lived objects vs fresh ones); big traces (deep chains, >16 KiB, parameter frames)",
   "Generated-input search with a differential oracle: every query of the finite universe derived from each mapping must be answered identically by ProguardMapper and by ProguardCache::parse(write(..)), and by the mapper with and without parameter index.",
   "Both implementations could be wrong in the same way (C01/C03/C04 add an independent model). Buffers 8-byte aligned.", "DESIGN.md §4 C02"),
 "C03": ("exploration", "property-based testing (proptest) against a by-params reference model from the AST (and corpus), for every params-capable mapper constructor and the cache, through remap_frame (every iterator adaptor) and through the typed trace API; scale mappings (65537 entries per method, repeats far back in a bucket); range aliases modulo 2^32",
   "Generated-input search over mappings rich in overloads, duplicates and inline groups; every (class, method, params) triple of the universe is compared with the model.",
   "The 'inlined callee' rule is taken from the statement (next record is a method with the identical usable range); header/field records never split such a pair by construction.", "DESIGN.md §4 C03"),
 "C04": ("exploration", "property-based testing (proptest) against a lookup reference model plus a cross-API invariant; adversarially similar names (incl. Unicode spaces, UTF-8 vs UTF-16 order); every mapper constructor; scale mappings (thousands of methods / classes); corpus",
   "Generated-input search incl. a wide profile (hundreds of similar class names): every present name, near-miss and sort neighbour is looked up in mapper and cache and compared with the model; remap_method answers are cross-checked against by-line frames.",
   "Near-miss set is finite (edit distance 1, '$'/'.', case, sort neighbours).", "DESIGN.md §4 C04"),
 "C05": ("exploration", "property-based testing (proptest) print->parse with expected records from the AST (alone, embedded, and through iterator adaptors nth/skip), single-violation mutants, bounded-exhaustive slot product and token strings against a strict recogniser, corpus lines, long runs of malformed lines, 65536-byte tokens, lines of 1 MiB .. 48 MiB (exact record / error carrying the whole line)",
   "Generated and bounded-exhaustive search over the line grammar: well-formed lines must parse to exactly their printed parts (alone and embedded), lines with exactly one documented violation must be errors carrying the line.",
   "The recogniser is narrower than the parser; unclassified lines are only checked for totality. exhaustive=true refers to the named finite sub-spaces only.", "DESIGN.md §4 C05"),
 "C06": ("exploration", "property-based testing and bounded-exhaustive enumeration with a metamorphic resynchronisation relation (records(A+nl+B) = records(A)++records(B)), totality invariants, and agreement of every iterator adaptor and of section()/clone() with plain iteration; inputs beyond 2^31 and 2^32 bytes; libFuzzer stage in thorough",
   "Generated-input search over byte strings, token soups, hostile mutants, corpus cuts and all short strings over a 9-symbol alphabet; thorough adds a coverage-guided libFuzzer campaign with the same oracle in-target.",
   "Phantom error items for blank trailing input are normalised away (documented in DESIGN.md).", "DESIGN.md §4 C06"),
 "C07": ("exploration", "property-based testing (proptest): per-line model composed from the public single-element API with line shapes decided by the harness's own recognisers (not the crate's parser), near misses of the frame shape derived from resolving frames, reference-model expectation for AST-kinded texts, conservation and identity relations, mapper==cache; correlated lines (the same frame repeated in other spellings); libFuzzer stage in thorough (text fuzzed against the composition oracle)",
   "Generated-input search over mappings x decorated trace texts; output must equal the per-line rule of the statement.",
   "Single-line parsers/printers are trusted here and covered by C17/C01.", "DESIGN.md §4 C07"),
 "C08": ("exploration", "property-based testing (proptest): structural preservation oracle built from single-element lookups, typed<->text agreement on canonical traces",
   "Generated-input search over mappings x typed traces with mapped and unmapped throwables/frames and cause chains.",
   "Element lookups (remap_throwable, remap_frame) are trusted here and covered by C01/C04.", "DESIGN.md §4 C08"),
 "C09": ("exploration", "property-based testing (proptest) with an independent layout decoder and AST-derived expected records; corpus files; single strings at the 2^21 and 2^28-byte length-prefix boundaries",
   "Generated-input search: every written file is decoded by a decoder written only from the format documentation and checked for all layout/ordering invariants, equality with the records derived from the AST, and the library's self-test.",
   "Decoder hard-codes format version 1 as documented in src/cache/mod.rs.", "DESIGN.md §4 C09"),
 "C10": ("exploration", "property-based differential testing (proptest) of two releases: frozen pinned 5.5.0 copy vs working tree, both writers x both readers on the same bytes, incl. odd and zero-length names",
   "Generated-input search over mappings and corpus files; a reader either rejects with WrongVersion or answers the whole decoding universe exactly like the other release's reader on the same bytes.",
   "'Every release' = two releases (pinned snapshot in /verif/pinned, current tree).", "DESIGN.md §4 C10"),
 "C11": ("fault_enumeration", "fault enumeration over generated caches: every strict prefix (also at a 4-aligned address), every single-field header edit and bit flip, magic/version edits at a 4-aligned address and on buffers cut right behind the header, foreign headers; expected error kind from the independent layout model",
   "Per generated cache the fault space (all prefixes, all listed header edits) is enumerated completely; files are generated with proptest.",
   "Complete per file, not over all files. Buffers 8-byte aligned.", "DESIGN.md §4 C11"),
 "C12": ("exploration", "property-based testing (proptest) with structured corruption operators on valid caches (small, tall, and 4096+-class caches), panic/overflow detection, pointer-range oracle and a placement-independence relation (same buffer surrounded by different bytes => same answers); every image also offered at addresses 1..7 mod 8; deep queries in a child process; libFuzzer stage in thorough (AddressSanitizer build over exact-size buffer allocations: a reproducing sanitizer report is a violation even when every answer is unchanged)",
   "Generated-input search over corrupted buffers x the query universe; thorough adds exhaustive (field,value) edits of small files and a coverage-guided libFuzzer campaign with the oracle in-target.",
   "Overflow is observable because the harness builds the crate with overflow-checks. test()/display()/debug_* helpers excluded.", "DESIGN.md §4 C12"),
 "C13": ("exploration", "property-based testing (proptest) / fuzzing of the whole pipeline with hostile numbers, mutants, raw bytes, scale mappings and every mapper constructor; no-panic/no-error oracle; deep inputs answered in a child process so that a stack overflow (an abort, not a panic) is attributed; libFuzzer stage in thorough",
   "Generated-input search; thorough adds a coverage-guided libFuzzer campaign over the same pipeline.",
   "Overflow observable through overflow-checks in the harness profile.", "DESIGN.md §4 C13"),
 "C14": ("exploration", "property-based testing (proptest) with byte-equality oracle across repeated writes, 8 threads, 8 separately started processes, 8 buffer alignments, after failed writes on the same thread, and through section() in both orders; children under varied environments and rotated write histories; degenerate (zero-length-name) and hostile-mutant mappings; sinks that panic (caught) before the next write; a helper process with a skewing global allocator (byte buffers at addresses = k mod 8); length law from the layout model",
   "Generated-input search over mappings and corpus files; all serialisations of the same bytes must be identical across hash seeds, threads and processes.",
   "One platform only.", "DESIGN.md §4 C14"),
 "C15": ("fault_enumeration", "fault enumeration with scripted std::io::Write sinks (chunk limits, short-once, fail, interrupt at every call index; short+fail, short+interrupt; write_vectored sinks; fixed-capacity sinks returning Ok(0); one-shot errors of seven kinds; interruption bursts of 2..64 at every call index, n interruptions before every call, interruption directly followed by a failure) over generated and sized mappings",
   "Per generated mapping the sink fault space is enumerated (every call index; k=1..16); oracle: canonical bytes on success, Err on sink failure, accepted bytes always a prefix.",
   "Sinks obey the Write contract. Complete per mapping for call indices; shortened lengths sampled for large writes.", "DESIGN.md §4 C15"),
 "C16": ("exploration", "property-based testing (proptest) from descriptor ASTs, bounded-exhaustive small descriptors, precise unterminated variants, single-edit corruptions, mapper==cache; exhaustive sweeps of array rank 1..255, parameter count 0..300, name length 1..300",
   "Generated and bounded-exhaustive search over the descriptor language; expected rendering computed from the AST and the reference class table.",
   "exhaustive=true refers to the 1813 small descriptors only.", "DESIGN.md §4 C16"),
 "C17": ("exploration", "property-based round-trip testing (proptest): try_parse(print(T)) == T and print idempotence; libFuzzer stage in thorough (bytes decoded structurally into a trace, and from the text side: whatever parses into the domain must survive print -> parse -> print)",
   "Generated-input search over typed traces, frames and throwables in the statement's domain.",
   "Domain predicate taken from the statement.", "DESIGN.md §4 C17"),
 "C18": ("exploration", "property-based testing (proptest) against an independent SHA-1/UUIDv5 implementation; LF/CRLF metamorphic check; cross-process equality; stateful API sequences (in-place and permutation edits of one buffer, section()/clone() after uuid(), also on 17..130 MiB buffers incl. a new buffer at the address of a freed one, finite-difference edits preserving weighted checksums); Default objects; children under varied environments",
   "Generated-input search over byte strings, mappings and corpus files; ids compared with an independent computation self-tested against published vectors.",
   "SHA-1 model verified against FIPS 180 vectors and the repository's five literal ids.", "DESIGN.md §4 C18"),
 "C19": ("exploration", "property-based testing (proptest) with truth computed from the generated line list and the fold over the public record iterator; fold-only stage for mid-line records and grey-zone values; evidence behind 65536 lines / 65 MiB; metadata headers 17 / 33 MiB apart; section() after the parent was queried",
   "Generated-input search over files whose deciding record is placed adversarially (after 49/50/51/1000/10000 negatives, last line without terminator).",
   "min_api values with a leading '+' are not generated.", "DESIGN.md §4 C19"),
 "C20": ("exploration", "compile-time Send+Sync assertions (type list enumerated) plus randomized multi-thread stress on cold instances compared with a separately computed single-threaded transcript; lockstep first use (all threads issue the same query at the same moment on a fresh instance); shared ProguardMapping (incl. sections) and shared result objects, incl. fresh result objects whose first read happens in lockstep; 1200-level typed traces remapped by 4/16 threads at the same moment (per-call state must be per call); scale mappings under stress; 6.4e7 distinct keys on one shared mapper + cache against a descriptor model",
   "Static part decides the realistic regressions (non-Send/Sync fields fail to compile); dynamic part is stress exploration with real threads over generated mappings.",
   "The harness does not own the schedule; interleavings are sampled, not enumerated.", "DESIGN.md §4 C20"),
}
ALL = ["C%02d" % i for i in range(1, 21)]
PENDING_REASON = "not claimed"

def main():
    checks = []
    for pid in ALL:
        if pid not in CHECKS:
            continue
        level, technique, text, note, ref = CHECKS[pid]
        checks.append({
            "property_id": pid,
            "quick_cmd": f"./check {pid} --tier quick",
            "thorough_cmd": f"./check {pid} --tier thorough",
            "evidence_file": f"/verif/evidence/{pid}.json",
            "replay_cmd_template": f"./check {pid} --replay {{path}}",
            "engine": "pgverif",
            "level_claimed": {"category": level, "text": text, "design_ref": ref},
            "level_note": note,
            "technique": technique,
        })
    manifest = {
        "version": 1,
        "setup_cmd": "./setup.sh",
        "hooks": {
            "guard": "pgverif_hooks",
            "enable": "none needed: every property is observable at the public API; the cfg name pgverif_hooks is reserved and unused",
            "baseline_off_cmd": "cd /repo && cargo test --workspace --no-fail-fast --offline",
            "source_commits": [],
            "add_only": True,
        },
        "engines": [
            {"name": "pgverif", "path": "/verif/harness", "serves_properties": [c["property_id"] for c in checks],
             "kind_free_text": "Rust harness: proptest-driven generators with shrinking, reference models, differential/metamorphic/round-trip oracles, bounded-exhaustive enumerations, fault enumeration; evidence and replay writer"},
            {"name": "libfuzzer", "path": "/verif/fuzz", "serves_properties": ["C06", "C07", "C12", "C13", "C17"],
             "kind_free_text": "cargo-fuzz / libFuzzer targets with the semantic oracle inside the target; used by the thorough tier of C06, C07, C12, C13, C17"},
        ],
        "checks": checks,
        "not_applicable": [{"property_id": p, "reason": PENDING_REASON} for p in ALL if p not in CHECKS],
        "notes": "All checks rebuild the harness against /repo's working tree (cargo path dependency) before running, in two build profiles: release + overflow checks + debug assertions (full case counts) and plain release without either (a quarter of the case counts) - a violation in either pass is a violation; replays ending in .plain.json are replayed with the second build. A watchdog and a memory ceiling turn hangs / runaway allocations into exit 2. Exit 2 = inconclusive (build/infrastructure), never a verdict. Genuine defects found and repaired are listed in KNOWN_FINDINGS.txt as fixed: lines.",
    }
    path = os.path.join(HERE, "MANIFEST.json")
    json.dump(manifest, open(path, "w"), indent=1)
    try:
        import jsonschema
        jsonschema.validate(manifest, json.load(open("/root/.vp/MANIFEST.schema.json")))
        print("MANIFEST.json valid;", len(checks), "checks")
    except ImportError:
        print("jsonschema not importable; wrote MANIFEST.json unvalidated")

if __name__ == "__main__":
    main()

#!/usr/bin/env python3
"""Generate /verif/MANIFEST.json from the table below and validate it against the schema."""
import json, os, sys
HERE = os.path.dirname(os.path.dirname(os.path.abspath(__file__)))

# id -> (level, technique, level text, level note, design ref)
CHECKS = {
 "C02": ("exploration", "property-based differential testing (proptest): mapper vs cache over the complete enumerated query universe of generated, token-mutated and corpus mappings",
         "Generated-input search with a differential oracle: every query of the finite universe derived from each generated mapping must be answered identically by ProguardMapper and by ProguardCache::parse(write(..)). Exploration, not proof: holds on everything generated.",
         "Trusts the harness's universe construction and that both implementations are not wrong in the same way (C01/C03/C04 add an independent model). Buffers are 8-byte aligned.", "DESIGN.md §4 C02"),
}
ALL = ["C%02d" % i for i in range(1, 21)]
PENDING_REASON = "check not built yet in this round (planned, see DESIGN.md §4); not claimed until it exists"

def main():
    checks = []
    for pid in ALL:
        if pid not in CHECKS:
            continue
        level, technique, text, note, ref = CHECKS[pid]
        checks.append({
            "property_id": pid,
            "quick_cmd": f"./check {pid} --tier quick",
            "thorough_cmd": f"./check {pid} --tier thorough",
            "evidence_file": f"/verif/evidence/{pid}.json",
            "replay_cmd_template": f"./check {pid} --replay {{path}}",
            "engine": "pgverif",
            "level_claimed": {"category": level, "text": text, "design_ref": ref},
            "level_note": note,
            "technique": technique,
        })
    manifest = {
        "version": 1,
        "setup_cmd": "./setup.sh",
        "hooks": {
            "guard": "pgverif_hooks",
            "enable": "none needed: every property is observable at the public API; the cfg name pgverif_hooks is reserved and unused",
            "baseline_off_cmd": "cd /repo && cargo test --workspace --no-fail-fast --offline",
            "source_commits": [],
            "add_only": True,
        },
        "engines": [
            {"name": "pgverif", "path": "/verif/harness", "serves_properties": [c["property_id"] for c in checks],
             "kind_free_text": "Rust harness: proptest-driven generators with shrinking, reference models, differential/metamorphic/round-trip oracles, bounded-exhaustive enumerations, fault enumeration; evidence and replay writer"},
        ],
        "checks": checks,
        "not_applicable": [{"property_id": p, "reason": PENDING_REASON} for p in ALL if p not in CHECKS],
        "notes": "All checks rebuild the harness against /repo's working tree (cargo path dependency) before running. Exit 2 = inconclusive (build/infrastructure), never a verdict. Genuine defects found and repaired are listed in KNOWN_FINDINGS.txt as fixed: lines.",
    }
    path = os.path.join(HERE, "MANIFEST.json")
    json.dump(manifest, open(path, "w"), indent=1)
    try:
        import jsonschema
        jsonschema.validate(manifest, json.load(open("/root/.vp/MANIFEST.schema.json")))
        print("MANIFEST.json valid;", len(checks), "checks")
    except ImportError:
        print("jsonschema not importable; wrote MANIFEST.json unvalidated")

if __name__ == "__main__":
    main()

#!/usr/bin/env bash
# tools/seed_round.sh <prefix> <src_root_prefix> <variants> <ids...>
#   confirms and runs seeded changes delivered as <src_root_prefix>-C<id>/_seed/<variant>/ under the name <prefix>-C<id>-<variant>
set -u
HERE="$(cd "$(dirname "$0")/.." && pwd)"
PFX="$1"; ROOT="$2"; VARS="$3"; shift 3
for id in "$@"; do
  for v in $VARS; do
    src="$ROOT-$id/_seed/$v"
    [ -f "$src/patch.diff" ] || { echo "$PFX-$id-$v: no deliverable"; continue; }
    flags=""; [ "$id" = "C18" ] && flags="--features uuid"
    "$HERE/tools/seeded.sh" confirm "$src" "$PFX-$id-$v" "$id" "$flags" 2>&1 | tail -1
    [ -d "$HERE/seeded/$PFX-$id-$v" ] && "$HERE/tools/seeded.sh" run "$PFX-$id-$v" 2>&1 | grep -E "CAUGHT|MISSED|INCONCLUSIVE" | cut -c1-220
  done
done

#!/usr/bin/env python3
"""Regenerate the as-built table of DESIGN.md §8 from evidence/*.json (quick tier) and a thorough-run log
(lines printed by ./check: 'Cnn tier=thorough ... profile=... evaluations=.. cases=.. wall=..', 'fuzz stage Cnn: N executions',
'<secs>s <kb>KB rc=0'). usage: tools/gen_asbuilt.py <thorough log>"""
import json, os, re, sys
HERE = os.path.dirname(os.path.dirname(os.path.abspath(__file__)))

def sci(n):
    n = int(n)
    if n < 1_000_000:
        return f"{n:,}".replace(",", " ")
    e = len(str(n)) - 1
    return f"{n / 10**e:.1f}·10^{e}"

thor = {}
cur = None
if len(sys.argv) > 1 and os.path.exists(sys.argv[1]):
    for l in open(sys.argv[1], errors="replace"):
        m = re.match(r"(C\d\d) tier=thorough seed=\d+ profile=(\w+) evaluations=(\d+) cases=(\d+) distinct_nontrivial=(\d+) violations=(\d+) wall=([\d.]+)s", l)
        if m:
            cur = m.group(1)
            thor.setdefault(cur, {})[m.group(2)] = (int(m.group(3)), int(m.group(4)), float(m.group(7)), int(m.group(6)))
            continue
        m = re.match(r"fuzz stage (C\d\d): (\d+) executions", l)
        if m:
            thor.setdefault(m.group(1), {})["fuzz"] = int(m.group(2))
            continue
        m = re.match(r"([\d.]+)s (\d+)KB rc=(\d+)", l)
        if m and cur:
            thor[cur]["total"] = (float(m.group(1)), int(m.group(2)), int(m.group(3)))

rows = ["| Id | quick, build 1: cases → oracle evaluations | distinct non-trivial | quick, build 2 (plain): cases → evaluations | quick wall (both passes) | thorough, build 1: cases → evaluations (+ libFuzzer execs) | thorough, build 2 | thorough wall (all) | peak RSS | exit |",
        "|----|----|----|----|----|----|----|----|----|----|"]
for i in range(1, 21):
    pid = f"C{i:02d}"
    e = json.load(open(os.path.join(HERE, "evidence", pid + ".json")))
    c = e["coverage"]
    nt = c["distinct_nontrivial"]
    nts = "1.5·10^6 (cap)" if c.get("distinct_nontrivial_saturated") else sci(nt)
    pp = c.get("plain_profile_pass") or {}
    q2 = f"{sci(pp.get('cases_generated', 0))} → {sci(pp.get('evaluations', 0))}" if pp else "–"
    t = thor.get(pid, {})
    t1 = f"{sci(t['checked'][1])} → {sci(t['checked'][0])}" + (f" + {sci(t['fuzz'])}" if "fuzz" in t else "") if "checked" in t else "–"
    t2 = f"{sci(t['plain'][1])} → {sci(t['plain'][0])}" if "plain" in t else "–"
    tw = f"{t['total'][0]:.0f} s" if "total" in t else "–"
    rss = f"{t['total'][1] / 1e6:.1f} GB" if "total" in t else "–"
    rc = str(t['total'][2]) if "total" in t else "–"
    rows.append(f"| {pid} | {sci(c['cases_generated'])} → {sci(c['evaluations'])} | {nts} | {q2} | {e['wall_s']:.0f} s | {t1} | {t2} | {tw} | {rss} | {rc} |")
text = "\n".join(rows) + "\n"
p = os.path.join(HERE, "DESIGN.md")
s = open(p).read()
b, en = "<!-- asbuilt:begin -->", "<!-- asbuilt:end -->"
if b not in s:
    sys.exit("markers missing")
s = s[: s.index(b) + len(b)] + "\n" + text + s[s.index(en):]
open(p, "w").write(s)
print("as-built table regenerated;", len(thor), "checks in the thorough log")

#!/usr/bin/env bash
# C20 driver: build the c20 binary by itself; a compile error about Send/Sync for one of the asserted types IS the
# violation (replay = saved compiler output). Any other build failure is inconclusive (exit 2).
#   tools/c20.sh <tier> <bin_dir> <cargo args...>
set -u
HERE="$(cd "$(dirname "$0")/.." && pwd)"
TIER="$1"; BIN_DIR="$2"; shift 2
LOG="$HERE/logs/build-C20.log"
mkdir -p "$HERE/logs" "$HERE/replays/C20" "$HERE/evidence"
T0=$(date +%s.%N)
if ! cargo build "$@" --bin c20 >"$LOG" 2>&1; then
  if grep -qE "cannot be (sent|shared) between threads safely|the trait .(Send|Sync). is not implemented|\`(Send|Sync)\` is not (satisfied|implemented)" "$LOG" && grep -q "src/bin/c20.rs" "$LOG"; then
    H=$(md5sum "$LOG" | cut -c1-16)
    REPLAY="$HERE/replays/C20/static-$H.txt"
    cp "$LOG" "$REPLAY"
    WHAT=$(grep -m1 -E "cannot be (sent|shared) between threads safely" "$LOG" | sed 's/"/\\"/g' | cut -c1-300)
    T1=$(date +%s.%N)
    cat > "$HERE/evidence/C20.json" <<JSON
{"property_id":"C20","tier":"$TIER","seed":${VERIF_SEED:-20261001},"level":"exploration",
 "coverage":{"evaluations":1,"distinct_nontrivial":2,"rule":"static part: compile-time Send+Sync assertions over the public handle and iterator types; the build of the assertion binary failed","samples":["$WHAT"],"exhaustive":false},
 "assumptions":["compile error about Send/Sync in src/bin/c20.rs is the violation"],"wall_s":$(echo "$T1 - $T0" | bc),"violations":1}
JSON
    echo "VIOLATION property=C20 replay=$REPLAY"
    echo "  static: $WHAT"
    exit 1
  fi
  echo "INCONCLUSIVE: c20 does not build for a reason unrelated to Send/Sync (see $LOG)"
  grep -E "^error" -A 6 "$LOG" | head -30
  exit 2
fi
timeout --signal=KILL "${VERIF_WATCHDOG_S:-$([ "$TIER" = thorough ] && echo 43200 || echo 3600)}" "$BIN_DIR/c20" "$TIER"
RC=$?
if [ $RC -ne 0 ] && [ $RC -ne 1 ]; then echo "INCONCLUSIVE: c20 exited with $RC"; exit 2; fi
exit $RC

#!/usr/bin/env bash
# Sensitivity protocol: apply one mutation to a scratch copy of /repo, run the quick check(s) that should catch it.
#   tools/sens.sh list                 list the catalogue
#   tools/sens.sh run <name>|all       run one / all catalogue entries
#   tools/sens.sh patch <file.diff> <ID...>   run checks against /repo + patch
# Scratch copies live under /tmp and are removed afterwards. Output: one line per (mutation, property).
set -u
HERE="$(cd "$(dirname "$0")/.." && pwd)"
CAT="$HERE/tools/mutations.tsv"
SCR="/tmp/pgv-sens-$$"
export VERIF_TARGET_DIR="${VERIF_TARGET_DIR:-/tmp/pgv-sens-target}"

mkcopy() {
  rm -rf "$SCR"; mkdir -p "$SCR"
  (cd /repo && git ls-files -z | xargs -0 cp --parents -t "$SCR") || exit 2
  # include uncommitted state of tracked files only (already copied from the working tree)
}
cleanup() { rm -rf "$SCR"; }
trap cleanup EXIT

run_checks() { # name, ids...
  local name="$1"; shift
  for id in "$@"; do
    local t0=$(date +%s.%N)
    out=$(VERIF_REPO_OVERRIDE="$SCR" "$HERE/check" "$id" --tier "${SENS_TIER:-quick}" 2>&1); rc=$?
    local t1=$(date +%s.%N)
    # evidence/replays written by an override run are not evidence: restore the committed evidence afterwards
    verdict="MISSED"; [ $rc -eq 1 ] && verdict="CAUGHT"; [ $rc -eq 2 ] && verdict="INCONCLUSIVE"
    printf "%-34s %-4s %-12s %5.1fs  %s\n" "$name" "$id" "$verdict" "$(echo "$t1 - $t0" | bc)" "$(echo "$out" | grep -m1 -A1 VIOLATION | tail -1 | cut -c1-150)"
  done
}

case "${1:-}" in
  list) cut -f1,2,5 "$CAT" | grep -v '^#';;
  run)
    sel="${2:-all}"
    grep -v '^#' "$CAT" | while IFS=$'\t' read -r name file expr props desc; do
      [ -z "$name" ] && continue
      if [ "$sel" != "all" ] && [ "$sel" != "$name" ]; then continue; fi
      mkcopy
      before=$(md5sum "$SCR/$file")
      perl -0pi -e "$expr" "$SCR/$file"
      after=$(md5sum "$SCR/$file")
      if [ "$before" = "$after" ]; then echo "$name: mutation did not apply"; continue; fi
      if [ "${SENS_TESTS:-0}" = "1" ]; then
        (cd "$SCR" && CARGO_TARGET_DIR="$VERIF_TARGET_DIR/repo-tests" cargo test --offline -q >/dev/null 2>&1) && echo "$name: repo tests pass" || echo "$name: REPO TESTS FAIL (mutation not admissible)"
      fi
      run_checks "$name" $props
    done
    (cd "$HERE" && git checkout -q -- evidence 2>/dev/null)
    ;;
  patch)
    pf="$2"; shift 2
    mkcopy
    (cd "$SCR" && patch -p1 -s < "$pf") || { echo "patch failed"; exit 2; }
    run_checks "$(basename "$(dirname "$pf")")" "$@"
    (cd "$HERE" && git checkout -q -- evidence 2>/dev/null)
    ;;
  *) echo "usage: sens.sh list | run <name|all> | patch <file> <ID...>"; exit 2;;
esac

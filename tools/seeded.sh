#!/usr/bin/env bash
# Confirm an independently written breaking change and file it under /verif/seeded/<name>/.
#   tools/seeded.sh confirm <src_dir> <name> <property>   src_dir holds patch.diff, demo.rs, NOTES.md
#   tools/seeded.sh run <name> [ID...]                    run checks (default: the property in meta.json) against /repo + patch
#   tools/seeded.sh runall                                run every seeded change against its property's quick check
# Confirmation happens in a scratch git worktree of /repo under /tmp (removed afterwards).
set -u
HERE="$(cd "$(dirname "$0")/.." && pwd)"
export CARGO_NET_OFFLINE=true
TGT="${PGV_SEEDED_TGT:-/tmp/pgv-seeded-target}"
case "${1:-}" in
  confirm)
    SRC="$2"; NAME="$3"; PROP="$4"; FLAGS="${5:-}"
    WT="/tmp/pgv-vseed-$$"
    git -C /repo worktree add -q --detach "$WT" HEAD || exit 2
    trap 'git -C /repo worktree remove --force "$WT" >/dev/null 2>&1' EXIT
    cp "$SRC/demo.rs" "$WT/tests/seed_demo.rs"
    R_DEMO_CLEAN=fail; R_SUITE=fail; R_DEMO_PATCHED=pass
    (cd "$WT" && CARGO_TARGET_DIR=$TGT cargo test --offline $FLAGS --test seed_demo >"$WT/demo_clean.log" 2>&1) && R_DEMO_CLEAN=pass
    if ! git -C "$WT" apply "$SRC/patch.diff"; then echo "$NAME: patch does not apply"; exit 1; fi
    (cd "$WT" && CARGO_TARGET_DIR=$TGT cargo test --offline $FLAGS --test seed_demo >"$WT/demo_patched.log" 2>&1) || R_DEMO_PATCHED=fail
    rm "$WT/tests/seed_demo.rs"
    (cd "$WT" && CARGO_TARGET_DIR=$TGT cargo test --offline >"$WT/suite.log" 2>&1) && R_SUITE=pass
    NT=$(grep -E "^test result" "$WT/suite.log" | awk '{s+=$4} END {print s}')
    echo "$NAME: demo on unchanged tree: $R_DEMO_CLEAN; demo with change: $R_DEMO_PATCHED; existing suite with change: $R_SUITE ($NT tests)"
    if [ "$R_DEMO_CLEAN" = pass ] && [ "$R_DEMO_PATCHED" = fail ] && [ "$R_SUITE" = pass ]; then
      D="$HERE/seeded/$NAME"; mkdir -p "$D"
      cp "$SRC/patch.diff" "$D/patch.diff"; cp "$SRC/demo.rs" "$D/demo.rs"; [ -f "$SRC/NOTES.md" ] && cp "$SRC/NOTES.md" "$D/NOTES.md"
      python3 - "$D" "$NAME" "$PROP" "$NT" <<'PY'
import json,sys,os
d,name,prop,nt=sys.argv[1:5]
notes=open(os.path.join(d,"NOTES.md")).read() if os.path.exists(os.path.join(d,"NOTES.md")) else ""
meta={"name":name,"breaks_property":prop,"origin":"written by an independent sub-agent that saw only the property text and a scratch worktree",
 "needs_to_manifest": "see NOTES.md",
 "confirmed":{"demo_on_unchanged_tree":"pass","demo_with_change":"fail","existing_suite_with_change":f"pass ({nt} tests incl. doctests)",
   "how":"tools/seeded.sh confirm: scratch git worktree of /repo HEAD; cargo test --offline --test seed_demo before/after git apply patch.diff; cargo test --offline with the patch"},
 "checks": {}}
json.dump(meta,open(os.path.join(d,"meta.json"),"w"),indent=1)
PY
      echo "$NAME: kept in $D"
    else
      echo "$NAME: NOT kept (does not meet the three conditions)"; tail -n 5 "$WT/demo_clean.log"; tail -n 5 "$WT/demo_patched.log"; tail -n 5 "$WT/suite.log"
      exit 1
    fi
    ;;
  run)
    NAME="$2"; shift 2
    D="$HERE/seeded/$NAME"
    IDS="$*"; [ -z "$IDS" ] && IDS=$(python3 -c "import json;print(json.load(open('$D/meta.json'))['breaks_property'])")
    OUT=$("$HERE/tools/sens.sh" patch "$D/patch.diff" $IDS 2>&1)
    echo "$OUT"
    # exactly one verdict line per (change, check): a run that yields none (patch did not apply, scratch copy failed,
    # tool crashed) must be visible in a filtered log, not silently absent
    for id in $IDS; do
      if ! echo "$OUT" | grep -qE "^$NAME +$id +(CAUGHT|MISSED|INCONCLUSIVE)"; then
        printf "%-34s %-4s %-12s %s\n" "$NAME" "$id" "NO-VERDICT" "$(echo "$OUT" | tail -1 | cut -c1-120)"
      fi
    done
    python3 - "$D/meta.json" "$OUT" <<'PY'
import json,sys
p,out=sys.argv[1:3]
m=json.load(open(p))
for line in out.splitlines():
    parts=line.split()
    if len(parts)>=3 and parts[1].startswith("C") and parts[2] in("CAUGHT","MISSED","INCONCLUSIVE"):
        m["checks"][parts[1]]={"quick":parts[2],"detail":" ".join(parts[4:])[:200]}
json.dump(m,open(p,"w"),indent=1)
PY
    ;;
  runall)
    # tools/seeded.sh runall [lanes]   (lanes > 1: changes are distributed over parallel lanes with their own target dirs)
    LANES="${2:-1}"
    TMP=$(mktemp -d)
    ls -d "$HERE"/seeded/*/ | xargs -n1 basename > "$TMP/all"
    for l in $(seq 0 $((LANES-1))); do
      ( awk -v l="$l" -v n="$LANES" 'NR % n == l' "$TMP/all" | while read -r n; do
          VERIF_TARGET_DIR="/tmp/pgv-sens-target-lane$l" "$0" run "$n" | grep -E " (CAUGHT|MISSED|INCONCLUSIVE|NO-VERDICT) "
        done > "$TMP/lane$l" ) &
    done
    wait
    cat "$TMP"/lane* | sort
    echo "TALLY changes=$(wc -l < "$TMP/all") CAUGHT=$(cat "$TMP"/lane* | grep -cE " CAUGHT ") MISSED=$(cat "$TMP"/lane* | grep -cE " MISSED ") INCONCLUSIVE=$(cat "$TMP"/lane* | grep -cE " INCONCLUSIVE ") NO-VERDICT=$(cat "$TMP"/lane* | grep -cE " NO-VERDICT ")"
    rm -rf "$TMP"
    for l in $(seq 0 $((LANES-1))); do rm -rf "/tmp/pgv-sens-target-lane$l"; done
    ;;
  *) echo "usage: seeded.sh confirm <src_dir> <name> <property> [extra cargo flags for the demo] | run <name> [ID...] | runall"; exit 2;;
esac

#![no_main]
//! libFuzzer target for C07: the semantic oracle of the property runs inside the target (pgverif::fuzzapi).
use libfuzzer_sys::fuzz_target;

fuzz_target!(|data: &[u8]| {
    pgverif::fuzzapi::must("C07", data);
});

#!/usr/bin/env bash
# MANIFEST.setup_cmd: offline build of the harness (all binaries) from files on disk only.
set -eu
cd "$(dirname "$0")"
export CARGO_NET_OFFLINE=true
cargo build --release --offline --manifest-path harness/Cargo.toml 2>&1 | tail -3
cargo build --profile plain --offline --manifest-path harness/Cargo.toml 2>&1 | tail -3
echo "setup ok"
